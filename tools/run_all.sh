#!/bin/bash
# Runs every registered check (quick by default) in /verif against /repo and prints one line per check.
# usage: tools/run_all.sh [quick|thorough]
cd "$(dirname "$0")/.."
TIER=${1:-quick}
rc=0
for c in C01 C03 C04 C06 C07 C08 C09 C11 C12 C13 C14 C15 C16 C18 C19 C20 selftest; do
  out=$(./check $c --tier $TIER 2>&1); st=$?
  echo "$c exit=$st $(echo "$out" | grep -E '^check .* done' | sed 's/^check [A-Za-z0-9]* done: //')"
  echo "$out" | grep -E '^(VIOLATION|HARNESS|KNOWN)' | cut -c1-200
  [ $st -gt $rc ] && rc=$st
done
exit $rc

#!/bin/bash
# Runs the repository's own suite exactly as BASELINE.json does (serial; guard off - there are no hooks)
# and compares the passed set with the baseline's stable_pass list.
# usage: tools/run_suite.sh [repo dir] [junit xml]
REPO=${1:-/repo}; XML=${2:-/tmp/suite.junit.xml}
cd "$REPO" && timeout 3000 /venv/bin/python -m pytest -ra -q -p no:cacheprovider --timeout=900 --continue-on-collection-errors --junitxml="$XML" > "${XML%.xml}.log" 2>&1
echo "pytest exit $?"
/venv/bin/python - "$XML" <<'PY'
import json, sys, xml.etree.ElementTree as ET
base = set(json.load(open('/root/.vp/BASELINE.json'))['stable_pass'])
passed = set()
for tc in ET.parse(sys.argv[1]).getroot().iter('testcase'):
    if not any(ch.tag in ('failure', 'error', 'skipped') for ch in tc):
        passed.add(tc.get('classname') + '::' + tc.get('name'))
missing = sorted(base - passed)
print("baseline stable_pass: %d, passed now: %d, baseline tests not passing: %d" % (len(base), len(passed & base), len(missing)))
for m in missing: print("  MISSING", m)
sys.exit(1 if missing else 0)
PY

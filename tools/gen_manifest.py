#!/venv/bin/python
"""Regenerates MANIFEST.json from the table below (kept valid against /root/.vp/MANIFEST.schema.json)."""
import json
import os

HERE = os.path.dirname(os.path.dirname(os.path.abspath(__file__)))

KTECH = "deterministic simulation: the sampler's generator is replaced at the rng seam by a simulated one; complete replay-DFS traversal of the random-outcome tree from every start state gives the exact transition matrix; configurations chosen by seeded swarm search"
CHECKS = {
    "C01": dict(
        level="exploration",
        technique=KTECH,
        text="For each configuration (data set of 1-3 points, plus four exchangeable points traversed through one start state per orbit of the symmetric group (24 of 243 states); alpha; 3 proposals; N; threshold; outlier probability; run-command wiring and library wiring) every outcome of every draw of ParticleGibbsTreeSampler.sample_tree is traversed on the real code from every start tree, giving the exact kernel K; rows must sum to 1, stay in the state space, and max|pi K - pi| <= 1e-9 with pi = exp(log_p_one). Exact per configuration (residuals where it holds are ~1e-16, defects found were 1e-5..5e-2); configurations are a fixed cross plus seeded random ones, so this is exploration, not proof. Also: exact kernels with 5-12 particles on 1-2 points; sampled invariance (refute-only, alarm at a 1e-9 tail) with 30 particles on three and 40-80 particles on four to five all-different data points, with a second statistic over (clones, outliers) classes.",
        note="pi is built from the code's own log_p_one (C03 judges that value). Trusts the simulated generator's outcome probabilities (self-tested) and leaf purity (all memo caches cleared per leaf). Sizes beyond n=4 / N=4 are not traversed exactly; sampled paths with n=4..7, N<=10 carry path-local oracles only (retained particle in slot 0, swarm size, finite weights, result in support).",
        ref="4 (C01)"),
    "C04": dict(
        level="exploration",
        technique=KTECH,
        text="Same exact-kernel machine applied to DataPointSampler (outlier option on/off, n<=4, thorough 5), PruneRegraphSampler (n<=4, thorough 5), ParticleGibbsSubtreeSampler (3 proposals, both wirings, n<=3, thorough 4) and one real iteration of run._run_main_sampler (n<=2, one n=3). Each move has its own residual and key; the subtree move's bias is a recorded finding identified by pinned exact residuals. Also: exact balance sum_x pi(x)K(x,y) = pi(y) at single target trees of 12-24 clones for prune-regraft (predecessors from the reference model, K(x,.) complete outcome trees of the real move, non-exchangeable data); orbit-lumped exact kernels on closed classes of 6-8 exchangeable points.",
        note="Same trusted base as C01. Known finding C04-subtree-move-not-invariant suppresses only invariance failures of op=subtree (and sweeps using it); its pinned configurations must keep their recorded residuals.",
        ref="4 (C04)"),
    "C03": dict(
        level="exploration",
        technique="deterministic simulation of seeded edit histories with persistence faults; refinement of the live tree against an independent executable FS-CRP reference model after every operation; manufactured same-form / different-form pairs for history independence",
        text="Seeded histories of sampler-grammar edits (1-8 points, grids 3-11, alpha in [0.01,100] changing mid-history, outliers, restore-from-image faults). After every operation both joint densities and the fused variant are compared with a reference model assembled term by term from the statement (own grid marginal), and trees of equal / different abstract form are compared for ==, hash and equal densities. Agreement is ~1e-14 where it holds; tolerance 1e-8.",
        note="Reference model uses the normalised top-level-clone term pinned by test_root_term. FFT branch (>= 1000 grid points) not exercised. Sampling of histories, not exhaustive.",
        ref="4 (C03), 4.A"),
    "C06": dict(
        level="exploration",
        technique="deterministic simulation of seeded edit histories with persistence faults (restore from dict/pickle/gzip/copy/TreeHolder at arbitrary steps); per-step comparison with a from-scratch rebuild; real sampler chains under a Tree monitor",
        text="After every operation of thousands of seeded histories (placements, data-point moves, prune-regraft, subtree replacement, relabel, restores) every clone's log_p/log_r, the root vector and both joint densities equal those of a tree rebuilt from the reference forest (observed max difference ~3e-14, tolerance 1e-8); real run_phyclone_chain workloads are monitored at outermost Tree calls with sampled rebuilds. The rebuild runs with the memoised recursion functions replaced by their undecorated originals; a separate batch of histories uses 12-60 data points; samples may sit at levels hundreds of nats apart; concentration 1e-10..1e7.",
        note="Histories are restricted to the grammar the samplers use. Reads per-node arrays through Tree._graph (read only).",
        ref="4 (C06), 4.A"),
    "C07": dict(
        level="exploration",
        technique="deterministic simulation: seeded edit histories with persistence faults and twin (restored vs original) execution; well-formedness and conservation invariant evaluated after every outermost Tree call and at every sampler boundary of real seeded chains",
        text="The well-formedness predicate (single root, in-degree 1, reachability, unique names, inverse index maps, payload data = data lists, disjoint cover of exactly the inserted data, read API = graph) is evaluated after every operation of seeded histories against a reference forest, and inside real chains (all five samplers, all proposals, outliers on/off, subtree updates) after every outermost Tree call; sample_tree in/out data conservation.",
        note="Exceptions escaping Tree methods in grammar-conformant histories count as violations; other sampler exceptions are C19's.",
        ref="4 (C07), 4.A"),
    "C08": dict(
        level="exploration",
        technique="deterministic simulation: systematic closure of particle genealogies under a reference placement model, realised through the real kernel; complete replay-DFS traversal of proposal.sample() under a simulated generator; weight telescoping against targets recomputed on fresh trees",
        text="For every genealogy to depth 4 (thorough 5) and every next data point, for 3 proposals x outlier proposal probability {0,.1,.5,seeded} x permutation distribution present/absent x alpha: sum of exp(log_p) over the model's placements is 1, the complete outcome tree of sample() gives each tree exactly exp(log_p), sampled support = placements, incremental weights x proposals telescope to log_p + log_pdf and with the last-step correction to log_p_one + log_pdf; the real SMCSampler's swarm (no resampling) carries those weights up to its common constant.",
        note="Candidates handed to log_p are built as ConditionalSMCSampler._get_constrained_path builds them. Exhaustive per parent state; configurations seeded.",
        ref="4 (C08)"),
    "C09": dict(
        level="exploration",
        technique="deterministic simulation: complete replay-DFS traversal of the random-outcome tree of the order sampler under a simulated generator, compared with an enumerating reference model",
        text="Every outcome of every shuffle inside RootPermutationDistribution.sample is traversed on the real code for all forests up to 4 (quick) / 5 (thorough) data points and seeded larger ones; exact path probabilities are compared with the reference model's linear extensions (same set, each 1/count to 1e-9) and log_pdf with -log(count). Exhaustive per tree, seeded over trees.",
        note="Trusts the simulated shuffle/choice device (self-tested against numpy) and the two independent reference counters (enumeration and closed form, cross-checked on every tree <= 7 points).",
        ref="4 (C09)"),
}

NA = {
    "C02": "pure function of (forest, data, grid size); no schedule, clock, fault, history or random outcome in the statement - DESIGN.md section 5",
    "C05": "closed-form function of one table row and the grid; nothing to schedule or to fault - DESIGN.md section 5",
    "C10": "deterministic dynamic programme over one tree; quantifier is over inputs only - DESIGN.md section 5",
    "C17": "function of the input table's contents; row order is an input permutation, not an execution order - DESIGN.md section 5",
}

PENDING = {}

PIPE = 'deterministic simulation of the whole run pipeline in one process (real load_data, run, chain driver, trace writer, summaries) with simulated clock, chain executor and trace file; seeded search over inputs, options, clock scripts and chain schedules; oracle over the recorded history'
CHECKS.update({
    "C13": dict(
        level="exploration",
        technique="deterministic simulation at the generator seam: scripted auxiliary / Bernoulli / gamma outcomes, parameters of the three draws recorded and compared with the Escobar-West reference; run-loop K, n, alpha flow observed in simulated runs",
        text="~24 000 seeded (a, b, alpha, K, n) tuples with scripted eta (quantiles, 1e-300, 1-1e-12), both mixture components and scripted gamma values: Beta parameters, mixing probability, gamma shape and rate must equal the statement's (1e-12 relative); the statement's distributions are verified once by quadrature to leave p(alpha|K,n) invariant; in simulated runs every update's K, n, old and new value are compared with the current tree (outliers excluded) and the prior object.",
        note="Trusts scipy to draw from the distributions whose parameters it forwards to the generator. K = 0 (all outliers) is exercised for absence of failure only.",
        ref="4 (C13)"),
    "C15": dict(
        level="exploration",
        technique="(a) seeded edit histories with restore-from-image faults and twin execution; (b) " + PIPE,
        text="(a) thousands of histories with restores (dict, pickle, gzip stream, copy, TreeHolder) at arbitrary steps incl. trees with index holes and outlier-only trees: restored tree equals the original in clades, outliers, labels, per-clone vectors, densities, and stays equal under all later edits. (b) hundreds of simulated runs with scheduler-chosen time-limit expiry: entries restore to well-formed complete trees, log_p_one recomputed under the recorded alpha matches, first entry is the post-burn-in tree, iteration labels are exactly the multiples of thin among the executed iterations. Every stored image is restored a second time (sibling without edits) and again after every later operation: it must keep giving the stored tree (durable state).",
        note="After later edits node names of twin and restored tree may differ (relabel order follows edge insertion order); names are compared at the round trip only. Which iteration the time limit stops at is observed, not prescribed.",
        ref="4 (C15)"),
    "C19": dict(
        level="exploration",
        technique=PIPE,
        text="1600 (thorough 60 000) simulated runs over generated input tables (1-8 mutations, 1-3 samples, clustered or not, identical and zero-depth rows) with options drawn boundary-biased from what the CLI accepts (1 particle, threshold 0/1, outlier probability up to 1.0, subtree probability 1, 1 iteration, chains 1-3), a quarter through the click command: no exception may escape, every entry is a well-formed tree over all data with finite log_p_one. A fifth of unclustered inputs also hold rows the loader must set aside (major copy number 0 in some sample, mutation absent from a sample, duplicated id); the mutations a run loads are compared with the input's. Systematic runs with 31-300 (thorough up to 1025) mutations and a few at grids of 1000-1024 points.",
        note="Cost cap per run keeps runs short, so large iterations x particles x data products are not reached. Chains run in-process under the simulated executor.",
        ref="4 (C19)"),
})

CHECKS.update({
    "C11": dict(
        level="exploration",
        technique=PIPE + "; traces also assembled synthetically from real Tree objects (input generation, labelled)",
        text="400 (thorough 20 000) traces - sampled by simulated multi-chain runs whose chain completion order (hence dict order and file bytes) the scheduler chose, and synthetic corner traces (repeated/relabelled copies, exact ties, all-outlier and single-clone trees) - are summarised by map (both modes) and topology-report with archive under several permutations of chain insertion order; outputs are parsed back and compared with a trace model that works on the dictionary images only: maximum, most frequent, one row per distinct tree, counts, scores, pointers, ranking, archive members.",
        note="Only the chain-order schedule quantifier is a simulation matter here; the rest is a history oracle. Tree identity in the model is computed from the images, not via Tree.__eq__.",
        ref="4 (C11)"),
    "C12": dict(
        level="exploration",
        technique=PIPE + "; traces also assembled synthetically from real Tree objects (input generation, labelled)",
        text="On the same traces every (table, Newick) pair written by map, consensus and inside the topology archive must list each input mutation once per sample, use clone ids that are Newick nodes or -1, keep clusters together, report ccf / clonal prevalence constant per clone and sample within [0,1] and -1 exactly for outliers, be feasible on the written tree and attain per sample the same total log-likelihood as the repository's MAP-CCF routine on a tree of that form; all commands must complete for every tree form (all-outlier, single clone, clones plus outliers, clustered, consensus with empty clones).",
        note="Optimality of the CCF values is C10 and not checked.",
        ref="4 (C12)"),
    "C14": dict(
        level="exploration",
        technique="deterministic simulation of seeded sampler workloads with cache faults (per-run cache size, clears at arbitrary points, alpha changed without a clear, interleaved kernels); every memoised call shadowed by the unmemoised original at call time",
        text="~1e5 shadowed calls per quick run across the five memoised entry points (convolution recursion, pairwise convolution, semi/fully adapted proposal distributions, cached new-clone tree) under cache sizes {1,2,3,16,shipped,off}: the memoised result must equal the original recomputed at that moment (arrays 1e-9; proposals: same support on canonical trees and same log_q; new-clone tree: same tree, log_p, log_p_one, log_pdf).",
        note="The memoising wrappers are re-created from the repo's own decorators at the per-run size; a change inside the decorators is exercised, a change of the shipped sizes is not. One grid shape per process as the statement stipulates.",
        ref="4 (C14)"),
    "C16": dict(
        level="exploration",
        technique=PIPE + "; traces also assembled synthetically from real Tree objects (input generation, labelled)",
        text="Same traces, consensus with both weight types and thresholds from [0.5,1]: the clade set of the written tree must equal the set of clades whose support strictly exceeds the threshold, uncovered data points carry clone -1, the command never raises; synthetic traces include majority clades that are the exact union of their children, twice in one tree (the case that merged two empty clones before the fix).",
        note="Runs with a support within 1e-9 of the threshold are skipped, as the statement excludes them.",
        ref="4 (C16)"),
    "C18": dict(
        level="exploration",
        technique=PIPE + "; perturbed chain schedules, simulated worker reuse, and re-execution in fresh interpreters under other PYTHONHASHSEED values",
        text="For 24 (thorough 400) seeded option sets a canonical execution gives reference per-chain traces; 7 perturbed schedules (start / finish order, all chains inside one forked worker, the OS reporting 1 or 2 cores, seeded assignment) and 2 (4) other hash seeds in fresh interpreters must reproduce per chain the same sequence of trees, labels, alpha, iter and log_p_one (1e-9). Thorough tier also observes the real spawn pool under two hash seeds with and without CPU pinning. Also real single-chain runs on clustered input in fresh interpreters under taskset on 1, 2 and all CPUs with the numerical libraries' thread pools left to size themselves: trace and stored data compared bitwise. Seeds include 0, 2^32-1, 2^63-1; chain counts up to 9.",
        note="One simulated worker is one forked child of the warm simulator (chains on the same worker share its module state); interpreter start-up of spawn workers is observed only in the thorough tier.",
        ref="4 (C18)"),
    "C20": dict(
        level="fault_enumeration",
        technique="deterministic simulation with storage faults: the gzip file behind the trace writer/readers is a simulated disk; every truncation / kill / ENOSPC offset of the single write is enumerated and fed to the three readers",
        text="For 3 (thorough 80) simulated runs, one of them long enough to span several blocks of any chunked format, every prefix length of the trace image is read by map, consensus and topology-report: each call must raise or give outputs identical to the complete trace's (about 20 000 reader calls per quick run; only the last ~10 trailer bytes may be missing). The writer itself is cut by ENOSPC and by process death at all offsets near both ends and on a grid: it must not report success. A dying chain worker must make run fail without a readable trace.",
        note="Exhaustive over crash points per trace; traces are seeded samples. Readers get a real file holding exactly the prefix; the writer's file is simulated at two seams (gzip by path, module-level open); a writer that goes around both is still read back from the real disk, but no write fault can then be injected (recorded as a probe). Debris left by a failing command is not flagged.",
        ref="4 (C20)"),
})

ALL = ["C%02d" % i for i in range(1, 21)]


def main():
    checks = []
    for pid in ALL:
        if pid not in CHECKS:
            continue
        c = CHECKS[pid]
        checks.append({
            "property_id": pid,
            "quick_cmd": "./check %s --tier quick" % pid,
            "thorough_cmd": "./check %s --tier thorough" % pid,
            "evidence_file": "evidence/%s.json" % pid,
            "replay_cmd_template": "./check %s --replay {path}" % pid,
            "engine": "sim",
            "level_claimed": {"category": c["level"], "text": c["text"], "design_ref": "DESIGN.md section " + c["ref"]},
            "level_note": c["note"],
            "technique": c["technique"],
        })
    na = []
    for pid in ALL:
        if pid in CHECKS:
            continue
        if pid in NA:
            na.append({"property_id": pid, "reason": NA[pid]})
        else:
            na.append({"property_id": pid, "reason": PENDING.get(pid, "check not built yet in this round (designed in DESIGN.md section 4); not claimed until it runs")})
    m = {
        "version": 1,
        "setup_cmd": "/venv/bin/python -c \"import numpy, scipy, numba, rustworkx, networkx, pandas, xxhash, click\" && /venv/bin/python -c \"import sys; sys.path.insert(0, '/repo'); import phyclone\"",
        "hooks": {
            "guard": "PHYCLONE_VERIF",
            "enable": "no hooks: every seam (rng argument, phyclone.run.Timer / ProcessPoolExecutor / as_completed / get_context, process_trace.gzip, memo caches via __wrapped__, Tree.to_dict/from_dict) is patched from the harness; checks import /repo's working tree directly (VERIF_REPO overrides)",
            "baseline_off_cmd": "cd /repo && /venv/bin/python -m pytest -ra -q -p no:cacheprovider --timeout=900 --continue-on-collection-errors",
            "source_commits": [],
            "add_only": True,
        },
        "engines": [{"name": "sim", "path": "sim/", "serves_properties": sorted(CHECKS),
                     "kind_free_text": "deterministic simulator: simulated numpy Generator (choice points, replay-DFS), simulated clock, chain executor, gzip/file fault shim, tree/sampler/cache monitors, reference models"}],
        "checks": checks,
        "not_applicable": na,
        "notes": "exit 0 held / only KNOWN-FINDING lines; exit 1 VIOLATION line; exit 2 harness error. known_findings.json lists recorded and fixed defects.",
    }
    with open(os.path.join(HERE, "MANIFEST.json"), "w") as fh:
        json.dump(m, fh, indent=1)
    try:
        import jsonschema
        jsonschema.validate(m, json.load(open("/root/.vp/MANIFEST.schema.json")))
        print("MANIFEST.json valid:", len(checks), "checks,", len(na), "not claimed")
    except ImportError:
        print("written (jsonschema not available to validate)")


if __name__ == "__main__":
    main()

#!/venv/bin/python
"""Sensitivity sweep: apply each mutant (a revert of a fix commit, a patch under mutants/, or a seeded change under
seeded/<id>/patch.diff) to a scratch worktree of /repo outside /repo and /verif, run the named quick checks against it
(VERIF_REPO), record which checks report a violation, and remove the worktree.  Evidence and replays of these runs go to
a temporary directory so the committed evidence is never overwritten by a mutated tree.

usage: tools/mutants.py [name-substring ...]      results -> seeded/RESULTS.json (merged)"""
import json
import os
import shutil
import subprocess
import sys
import tempfile
import time

VERIF = os.path.dirname(os.path.dirname(os.path.abspath(__file__)))

# name -> (kind, source, [checks expected to kill])
REVERTS = {
    "revert-57cf67b-log_count-outlier-factorial": ("revert", "57cf67b", ["C09", "C01"]),
    "revert-418e3a0-run-wiring-perm_dist": ("revert", "418e3a0", ["C01"]),
    "revert-1bc8733-prune-regraft-factor": ("revert", "1bc8733", ["C04"]),
    "revert-91429da-lone-outlier-dp-move": ("revert", "91429da", ["C04"]),
    "revert-d80fe28-bootstrap-log_p": ("revert", "d80fe28", ["C08", "C01"]),
    "revert-f771711-conditional-init-weights": ("revert", "f771711", ["C01", "C19"]),
    "revert-455c73b-subtree-empty-choice": ("revert", "455c73b", ["C19", "C04"]),
    "revert-80005b1-alpha-clamp": ("revert", "80005b1", ["C19"]),
    "revert-49ada26-all-outlier-table": ("revert", "49ada26", ["C12", "C11", "C16"]),
    "revert-ed5f177-consensus-empty-clones": ("revert", "ed5f177", ["C16"]),
    "revert-c1fcfd3-relative-ess-clamp": ("revert", "c1fcfd3", ["C01"]),
}


def discover():
    m = dict(REVERTS)
    md = os.path.join(VERIF, "mutants")
    for f in sorted(os.listdir(md)) if os.path.isdir(md) else []:
        if f.endswith(".patch"):
            checks = []
            with open(os.path.join(md, f)) as fh:
                for line in fh:
                    if line.startswith("# kills:"):
                        checks = line.split(":", 1)[1].split()
            m["mutant-" + f[:-6]] = ("patch", os.path.join(md, f), checks)
    sd = os.path.join(VERIF, "seeded")
    for d in sorted(os.listdir(sd)) if os.path.isdir(sd) else []:
        meta = os.path.join(sd, d, "meta.json")
        if os.path.exists(meta):
            mj = json.load(open(meta))
            m["seeded-" + d] = ("patch", os.path.join(sd, d, "patch.diff"), mj.get("checks", [mj["property"]]))
    return m


def run_one(name, kind, src, checks):
    wt = tempfile.mkdtemp(prefix="vmut_")
    os.rmdir(wt)
    subprocess.run(["git", "-C", "/repo", "worktree", "add", "-q", "--detach", wt, "HEAD"], check=True)
    res = {"name": name, "checks": {}, "applied": False}
    try:
        if kind == "revert":
            r = subprocess.run(["git", "-C", wt, "revert", "-n", src], stdout=subprocess.PIPE, stderr=subprocess.STDOUT)
        else:
            r = subprocess.run(["git", "-C", wt, "apply", "--whitespace=nowarn", src], stdout=subprocess.PIPE, stderr=subprocess.STDOUT)
        if r.returncode != 0:
            res["error"] = r.stdout.decode()[-400:]
            return res
        res["applied"] = True
        ev = tempfile.mkdtemp(prefix="vmut_ev_")
        env = dict(os.environ, VERIF_REPO=wt, VERIF_EVIDENCE_DIR=ev, VERIF_REPLAY_DIR=ev, VERIF_NO_CONFIRM="1")
        for c in checks:
            t = time.time()
            p = subprocess.run([os.path.join(VERIF, "check"), c, "--tier", "quick"], env=env, stdout=subprocess.PIPE, stderr=subprocess.STDOUT)
            lines = [l for l in p.stdout.decode().splitlines() if l.startswith("VIOLATION") or l.startswith("HARNESS")]
            res["checks"][c] = {"exit": p.returncode, "wall_s": round(time.time() - t, 1), "first": (lines[0][:300] if lines else "")}
        shutil.rmtree(ev, ignore_errors=True)
    finally:
        subprocess.run(["git", "-C", "/repo", "worktree", "remove", "--force", wt])
        shutil.rmtree(wt, ignore_errors=True)
    return res


def main():
    m = discover()
    sel = sys.argv[1:]
    out_path = os.environ.get("MUTANTS_RESULTS") or os.path.join(VERIF, "seeded", "RESULTS.json")  # shards: own file each, merged afterwards
    os.makedirs(os.path.dirname(out_path), exist_ok=True)
    results = json.load(open(out_path)) if os.path.exists(out_path) else {}
    for name, (kind, src, checks) in m.items():
        if sel and not any(s in name for s in sel):
            continue
        r = run_one(name, kind, src, checks)
        killed = [c for c, v in r["checks"].items() if v["exit"] == 1]
        r["killed_by"] = killed
        results[name] = r
        print("%-55s applied=%s killed_by=%s %s" % (name, r["applied"], killed, {c: v["exit"] for c, v in r["checks"].items()}))
        sys.stdout.flush()
        with open(out_path, "w") as fh:
            json.dump(results, fh, indent=1, sort_keys=True)


if __name__ == "__main__":
    main()

#!/venv/bin/python
"""Ad-hoc: print residuals for a list of configurations.  usage: tools/kexp.py 'op=pg,n=2,proposal=bootstrap,outlier_prob=0.01,wiring=lib' ..."""
import os, sys, time
HERE = os.path.dirname(os.path.dirname(os.path.abspath(__file__)))
if os.environ.get("PYTHONHASHSEED") is None:
    os.environ["PYTHONHASHSEED"] = "0"; os.execv(sys.executable, [sys.executable] + sys.argv)
sys.path.insert(0, HERE); sys.path.insert(0, os.environ.get("VERIF_REPO", "/repo"))
from sim import bridge, kernelmat, runner
bridge.warm_up()
for spec in sys.argv[1:]:
    kw = {}
    for kv in spec.split(","):
        k, v = kv.split("=")
        try: v = int(v)
        except ValueError:
            try: v = float(v)
            except ValueError: pass
        kw[k] = v
    c = kernelmat.default_config(**kw)
    t = time.time()
    st, probs = kernelmat.run_config(c)
    print(spec, "->", st, "%.1fs" % (time.time() - t))
    for k, d, e in probs[:4]:
        print("    ", k, d[:200])
runner.shutdown_pool()

#!/venv/bin/python
"""Computes the residuals that known_findings.json pins for the subtree-move finding (run once; values are committed)."""
import json, os, sys
HERE = os.path.dirname(os.path.dirname(os.path.abspath(__file__)))
if os.environ.get("PYTHONHASHSEED") is None:
    os.environ["PYTHONHASHSEED"] = "0"; os.execv(sys.executable, [sys.executable] + sys.argv)
sys.path.insert(0, HERE); sys.path.insert(0, os.environ.get("VERIF_REPO", "/repo"))
from sim import bridge, kernelmat, runner
bridge.warm_up()
dc = kernelmat.default_config
cfgs = []
for prop in ["bootstrap", "semi-adapted", "fully-adapted"]:
    cfgs.append(dc(op="subtree", n=3, proposal=prop, wiring="run", data_seed=42, alpha=1.3))
cfgs.append(dc(op="subtree", n=3, proposal="semi-adapted", wiring="lib", data_seed=52, alpha=0.5, outlier_prob=0.2, grid=5))
cfgs.append(dc(op="subtree", n=3, proposal="fully-adapted", wiring="lib", data_seed=53, alpha=2.0, N=3, style="peaked"))
out = []
for c in cfgs:
    st, probs = kernelmat.run_config(c)
    out.append({"config": c, "resid": st["resid"]})
    print(st)
print(json.dumps(out, indent=1))
runner.shutdown_pool()

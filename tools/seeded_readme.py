#!/venv/bin/python
"""Writes seeded/README.md from seeded/*/meta.json and seeded/RESULTS.json (the latest sweep with tools/mutants.py)."""
import json
import os

VERIF = os.path.dirname(os.path.dirname(os.path.abspath(__file__)))
sd = os.path.join(VERIF, "seeded")
res = json.load(open(os.path.join(sd, "RESULTS.json"))) if os.path.exists(os.path.join(sd, "RESULTS.json")) else {}
lines = ["# Seeded changes and mutants: which check catches which",
         "",
         "`seeded/<id>/` holds changes written by independent sub-agents that were given only the property record and a scratch worktree",
         "(patch.diff, demo.py, notes.md, meta.json).  Each was confirmed by me in a scratch worktree: the demo passes without and fails with",
         "the change, the repository's 85 baseline tests still pass with it.  `mutants/*.patch` are hand-written; `revert-*` are reverts of the",
         "`fix:` commits.  The table is the latest sweep of `tools/mutants.py` (quick tier, `VERIF_REPO=<patched worktree>`).",
         "",
         "| change | property | what it needs to manifest | quick checks run -> exit (1 = VIOLATION) | caught by |",
         "|---|---|---|---|---|"]
rows = []
for name in sorted(res):
    r = res[name]
    prop = ""
    needs = ""
    if name.startswith("seeded-"):
        mp = os.path.join(sd, name[7:], "meta.json")
        if os.path.exists(mp):
            m = json.load(open(mp))
            prop = m["property"]
            needs = m.get("needs_short", "")
    elif name.startswith("mutant-"):
        pp = os.path.join(VERIF, "mutants", name[7:] + ".patch")
        for l in open(pp):
            if l.startswith("# note:"):
                needs = l[7:].strip()
    ck = ", ".join("%s -> %s" % (c, v["exit"]) for c, v in sorted(r.get("checks", {}).items()))
    caught = ", ".join(r.get("killed_by", [])) or "**none**"
    rows.append("| %s | %s | %s | %s | %s |" % (name, prop, needs.replace("|", "/"), ck, caught))
lines += rows
open(os.path.join(sd, "README.md"), "w").write("\n".join(lines) + "\n")
print("\n".join(rows))

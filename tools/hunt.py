#!/venv/bin/python
"""Ad-hoc hunt: many seeded small configurations through the exact-kernel machine; prints those that violate.
usage: tools/hunt.py <op> <count> <seed> [n choices, e.g. 2,2,3] [N choices]"""
import os, sys, time, random, json
HERE = os.path.dirname(os.path.dirname(os.path.abspath(__file__)))
if os.environ.get("PYTHONHASHSEED") is None:
    os.environ["PYTHONHASHSEED"] = "0"; os.execv(sys.executable, [sys.executable] + sys.argv)
sys.path.insert(0, HERE); sys.path.insert(0, os.environ.get("VERIF_REPO", "/repo"))
from sim import bridge, kernelmat, kernelcheck, runner
bridge.warm_up()
op, count, seed = sys.argv[1], int(sys.argv[2]), int(sys.argv[3])
ns = [int(x) for x in (sys.argv[4] if len(sys.argv) > 4 else "2").split(",")]
Ns = [int(x) for x in (sys.argv[5] if len(sys.argv) > 5 else "2,3").split(",")]
r = random.Random(seed)
bad = 0
t0 = time.time()
for i in range(count):
    c = kernelcheck.random_config(r, op, ns, Ns)
    c["threshold"] = r.choice([0.0, 0.5, 1.0, 1.0, round(r.random(), 3)])
    if c["n"] >= 3 and c["N"] >= 3 and c["threshold"] > 0.7:
        c["threshold"] = 0.5
    try:
        st, probs = kernelmat.run_config(c, max_leaves_per_state=400000)
    except Exception as e:
        print("SKIP", type(e).__name__, str(e)[:100]); continue
    if probs:
        bad += 1
        print("VIOL", json.dumps(c, sort_keys=True)); print("     ", probs[0][0], probs[0][1][:200]); sys.stdout.flush()
print("done %d configs, %d violating, %.0fs" % (count, bad, time.time() - t0))
runner.shutdown_pool()

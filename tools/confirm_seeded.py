#!/venv/bin/python
"""Confirm a seeded change written by a sub-agent and file it under seeded/<id>/.

usage: tools/confirm_seeded.py <property> <dir with patch.diff, demo.py, notes.md> <id> [check ...]
Steps (all in a scratch worktree of /repo under /tmp, removed afterwards):
  1. demo passes on the unchanged tree          2. patch applies
  3. demo fails with the patch                   4. the repository's suite still passes its 85 baseline tests
  5. the named quick checks (default: the property's) are run against the patched tree (VERIF_REPO)"""
import json
import os
import shutil
import subprocess
import sys
import tempfile
import time

VERIF = os.path.dirname(os.path.dirname(os.path.abspath(__file__)))


def sh(cmd, **kw):
    return subprocess.run(cmd, stdout=subprocess.PIPE, stderr=subprocess.STDOUT, **kw)


def main():
    prop, src, sid = sys.argv[1:4]
    checks = sys.argv[4:] or [prop]
    wt = tempfile.mkdtemp(prefix="vseed_")
    os.rmdir(wt)
    sh(["git", "-C", "/repo", "worktree", "add", "-q", "--detach", wt, "HEAD"], check=True)
    meta = {"property": prop, "id": sid, "checks": checks, "confirmed": {}, "source": "independent sub-agent given only the property record and a scratch worktree"}
    env = dict(os.environ, PYTHONPATH=wt, PYTHONHASHSEED="0")
    demo = os.path.join(src, "demo.py")
    try:
        # demos sometimes assert the path of the sub-agent's own worktree: run a copy that names this scratch worktree instead
        agent_wt = os.path.dirname(os.path.dirname(os.path.abspath(src)))
        txt = open(demo).read()
        if agent_wt.startswith("/tmp/seed_") and agent_wt in txt:
            demo = os.path.join(wt, "_demo_copy.py")
            open(demo, "w").write(txt.replace(agent_wt, wt))
        t = time.time()
        r = sh(["timeout", "900", "/venv/bin/python", demo], env=env, cwd=wt)
        meta["confirmed"]["demo_passes_without_change"] = (r.returncode == 0)
        r = sh(["git", "-C", wt, "apply", "--whitespace=nowarn", os.path.join(src, "patch.diff")])
        meta["confirmed"]["patch_applies"] = (r.returncode == 0)
        if r.returncode != 0:
            meta["error"] = r.stdout.decode()[-300:]
        else:
            r = sh(["timeout", "900", "/venv/bin/python", demo], env=env, cwd=wt)
            meta["confirmed"]["demo_fails_with_change"] = (r.returncode != 0)
            meta["demo_output_tail_with_change"] = r.stdout.decode()[-400:]
            xml = os.path.join(wt, "suite.junit.xml")
            r = sh([os.path.join(VERIF, "tools", "run_suite.sh"), wt, xml])
            meta["confirmed"]["suite_85_baseline_tests_pass_with_change"] = (r.returncode == 0)
            meta["suite_summary"] = r.stdout.decode()[-300:]
            ev = tempfile.mkdtemp(prefix="vseed_ev_")
            cenv = dict(os.environ, VERIF_REPO=wt, VERIF_EVIDENCE_DIR=ev, VERIF_REPLAY_DIR=ev, VERIF_NO_CONFIRM="1")
            meta["check_results"] = {}
            for c in checks:
                t = time.time()
                p = sh([os.path.join(VERIF, "check"), c, "--tier", "quick"], env=cenv)
                lines = [l for l in p.stdout.decode().splitlines() if l.startswith(("VIOLATION", "HARNESS", "KNOWN"))]
                meta["check_results"][c] = {"exit": p.returncode, "wall_s": round(time.time() - t, 1), "lines": [l[:400] for l in lines[:3]]}
            shutil.rmtree(ev, ignore_errors=True)
    finally:
        sh(["git", "-C", "/repo", "worktree", "remove", "--force", wt])
        shutil.rmtree(wt, ignore_errors=True)
    dst = os.path.join(VERIF, "seeded", sid)
    os.makedirs(dst, exist_ok=True)
    for f in ("patch.diff", "demo.py", "notes.md"):
        if os.path.exists(os.path.join(src, f)):
            shutil.copy(os.path.join(src, f), os.path.join(dst, f))
    try:
        notes = open(os.path.join(src, "notes.md")).read()
        meta["needs_to_manifest"] = notes[:1500]
    except Exception:
        pass
    meta["what_i_ran"] = ["demo.py on the unchanged worktree", "git apply patch.diff", "demo.py with the change", "tools/run_suite.sh (serial baseline command, compared with BASELINE.json stable_pass)",
                          "./check <id> --tier quick with VERIF_REPO=<patched worktree>"]
    with open(os.path.join(dst, "meta.json"), "w") as fh:
        json.dump(meta, fh, indent=1)
    print(sid, json.dumps(meta["confirmed"]), {c: v["exit"] for c, v in meta.get("check_results", {}).items()})


if __name__ == "__main__":
    main()

"""C18  A seeded run is reproducible regardless of chain scheduling, worker reuse and hash seed.

Schedule search: for each seeded option set one canonical execution (chains started and finished in order, one fresh
simulated worker each, PYTHONHASHSEED=0) gives the reference per-chain traces; perturbed executions of the same seed
(start order, finish order, worker reuse / one worker for all chains, other hash seeds in fresh interpreters) must give
the same per-chain traces.  Thorough tier additionally observes the real spawn pool (labelled observation)."""
import json
import os
import random
import subprocess
import sys
import tempfile

from sim import models, runner, trace_model as tm, world_pipeline as wp

LEVEL = "exploration"


def spec_for(seed):
    r = random.Random(seed)
    spec = wp.spec_from_seed(seed, boundary=False, finite_clock=False)
    o = spec["options"]
    o["num_chains"] = r.choice([1, 2, 2, 3, 3, 4])
    r2 = random.Random(seed ^ 0x5EED)
    if r2.random() < 0.12:
        o["num_chains"] = r2.choice([6, 9])  # more chains than any simulated core count
    if r2.random() < 0.15:
        o["seed"] = r2.choice([0, 0, 1, 2 ** 32 - 1, 2 ** 32, 2 ** 63 - 1])  # "all seeds": falsy, and beyond 32 bits
    o["num_iters"] = r.choice([2, 4, 8])
    o["grid_size"] = r.choice([11, 21])
    o["outlier_prob"] = r.choice([0.0, 0.0, 0.01, 0.3])
    spec["via_cli"] = False
    return spec


def digest(results):
    """Per-chain observable: sequence of (canonical tree, labels, alpha, iter, log_p_one)."""
    out = {}
    for ch, res in results.items():
        seq = []
        for e in res["trace"]:
            f = tm.forest_from_image(e["tree"])
            lab = sorted([int(k), str(v)] for k, v in tm.image_labels(e["tree"]).items())
            seq.append([repr(models.canon_sortable(models.canon(f))), lab, float(e["alpha"]), int(e["iter"]), float(e["log_p_one"])])
        out[str(ch)] = seq
    return out


def schedules(r, k):
    """The canonical schedule first, then perturbed ones."""
    ident = list(range(k))
    out = [{"start_order": ident, "finish_order": ident, "worker_of": ident, "name": "canonical", "ambient": {"offset": 0.0, "step": 0.001, "cwd": "a"}}]
    if k == 1:
        out.append({"start_order": ident, "finish_order": ident, "worker_of": ident, "name": "other_surroundings",
                    "ambient": {"offset": 1.7e9, "step": 0.37, "cwd": "b", "env": {"TZ": "Pacific/Kiritimati", "LANG": "tr_TR.UTF-8", "PHYCLONE_SIM": "1"}}})
        return out
    rev = ident[::-1]
    out.append({"start_order": rev, "finish_order": ident, "worker_of": ident, "name": "start_reversed"})
    out.append({"start_order": ident, "finish_order": rev, "worker_of": ident, "name": "finish_reversed"})
    out.append({"start_order": ident, "finish_order": ident, "worker_of": [0] * k, "name": "one_worker_for_all"})
    p1, p2 = ident[:], ident[:]
    r.shuffle(p1)
    r.shuffle(p2)
    out.append({"start_order": p1, "finish_order": p2, "worker_of": [r.randrange(max(1, k - 1)) for _ in range(k)], "name": "seeded"})
    out.append({"start_order": rev, "finish_order": p2, "worker_of": [0] * k, "name": "reversed_on_one_worker"})
    out.append({"start_order": ident, "finish_order": ident, "worker_of": ident, "name": "other_surroundings",
                "ambient": {"offset": 1.7e9, "step": 0.37, "cwd": "b", "env": {"TZ": "Pacific/Kiritimati", "LANG": "tr_TR.UTF-8", "PHYCLONE_SIM": "1"}}})
    out.append({"start_order": ident, "finish_order": ident, "worker_of": ident, "name": "arguments_pickled_late", "late_pickle": True})
    out.append({"start_order": p1, "finish_order": rev, "worker_of": [0] * k, "name": "arguments_pickled_late_one_worker", "late_pickle": True})
    out.append({"start_order": ident, "finish_order": ident, "worker_of": [0] * k, "name": "one_core", "cores": 1})
    out.append({"start_order": p1, "finish_order": ident, "worker_of": [i % 2 for i in range(k)], "name": "two_cores", "cores": 2})
    return out


def compare(ref, got, what):
    P = []
    if set(ref) != set(got):
        return [({"sub": "chain_numbers", "perturbation": what}, "chains %r in the reference, %r under %s" % (sorted(ref), sorted(got), what))], 0
    bit = 0
    for ch in sorted(ref):
        a, b = ref[ch], got[ch]
        if len(a) != len(b):
            P.append(({"sub": "trace_length", "perturbation": what}, "chain %s has %d entries in the reference and %d under %s" % (ch, len(a), len(b), what)))
            continue
        for i, (x, y) in enumerate(zip(a, b)):
            if x[0] != y[0]:
                P.append(({"sub": "tree_differs", "perturbation": what}, "chain %s entry %d: tree %s vs %s under %s" % (ch, i, x[0], y[0], what)))
                break
            if x[1] != y[1]:
                P.append(({"sub": "labels_differ", "perturbation": what}, "chain %s entry %d: labels %r vs %r under %s" % (ch, i, x[1], y[1], what)))
                break
            if x[2] != y[2] or x[3] != y[3]:
                P.append(({"sub": "alpha_or_iter_differs", "perturbation": what}, "chain %s entry %d: (alpha, iter) %r vs %r under %s" % (ch, i, x[2:4], y[2:4], what)))
                break
            if not (abs(x[4] - y[4]) <= 1e-9 * max(1.0, abs(x[4]))):
                P.append(({"sub": "log_p_one_differs", "perturbation": what}, "chain %s entry %d: log_p_one %r vs %r under %s" % (ch, i, x[4], y[4], what)))
                break
            if x[4] != y[4]:
                bit += 1
    return P, bit


def task(seed):
    spec = spec_for(seed)
    k = spec["options"]["num_chains"]
    r = random.Random(seed ^ 0x1234)
    ref = None
    problems = []
    fired = {}
    bit = 0
    n_exec = 0
    for sch in schedules(r, k):
        s = dict(spec)
        s["schedule"] = sch
        if sch.get("ambient"):
            s["ambient"] = sch["ambient"]
            if sch["name"] != "canonical":
                fired["ambient.clock_cwd_env"] = fired.get("ambient.clock_cwd_env", 0) + 1
        if sch.get("cores"):
            s["cores"] = sch["cores"]
            fired["sched.cores"] = fired.get("sched.cores", 0) + 1
        h = wp.run_pipeline(s)
        n_exec += 1
        if h["results"] is None:
            if sch["name"] == "canonical":
                return {"seed": seed, "skipped": "canonical run raised %r" % (h["exception"],), "problems": [], "fired": {}, "k": k, "n_exec": n_exec, "ref": None, "bit": 0}
            problems.append(({"sub": "perturbed_run_raised", "perturbation": sch["name"]}, "run raised %r under schedule %s but not under the canonical one" % (h["exception"], sch["name"])))
            continue
        d = digest(h["results"])
        for kk, v in h["stats"].items():
            fired["sched." + kk] = fired.get("sched." + kk, 0) + v
        if sch["name"] == "canonical":
            ref = d
            ref_file_order = list(h["results"].keys())
        else:
            P, b = compare(ref, d, "schedule:" + sch["name"])
            problems += P
            bit += b
    return {"seed": seed, "skipped": None, "problems": problems[:2], "fired": fired, "k": k, "n_exec": n_exec, "ref": ref, "bit": bit}


CHILD = r'''
import json, os, sys
sys.path.insert(0, %(verif)r); sys.path.insert(0, %(repo)r)
from sim import world_pipeline as wp
from checks import c18
wp.warm_up()
out = {}
for seed in json.loads(sys.argv[1]):
    spec = c18.spec_for(seed)
    k = spec["options"]["num_chains"]
    spec["schedule"] = {"start_order": list(range(k)), "finish_order": list(range(k)), "worker_of": list(range(k))}
    h = wp.run_pipeline(spec)
    out[str(seed)] = c18.digest(h["results"]) if h["results"] is not None else None
print("C18CHILD" + json.dumps(out))
'''


def hash_seed_child(item):
    hashseed, seeds = item
    env = dict(os.environ)
    env["PYTHONHASHSEED"] = str(hashseed)
    code = CHILD % {"verif": runner.VERIF, "repo": runner.REPO}
    r = subprocess.run([sys.executable, "-c", code, json.dumps(seeds)], env=env, stdout=subprocess.PIPE, stderr=subprocess.PIPE, timeout=1500)
    for line in r.stdout.decode().splitlines():
        if line.startswith("C18CHILD"):
            return {"hashseed": hashseed, "out": json.loads(line[8:])}
    raise runner.HarnessError("hash-seed child %s produced no result: %s" % (hashseed, r.stderr.decode()[-800:]))


def _real(spec, hashseed, cpus, free_threads=False):
    """One real `phyclone run` in a fresh interpreter with its real spawn pool, on the CPUs named (None: all)."""
    d = tempfile.mkdtemp(prefix="vreal_")
    try:
        in_file, cluster_file = wp.write_inputs(d, spec["inputs"])
        out_file = os.path.join(d, "trace.pkl.gz")
        o = spec["options"]
        args = ["run", "-i", in_file, "-o", out_file, "--burnin", o["burnin"], "--num-iters", o["num_iters"], "--thin", o["thin"], "--num-chains", o["num_chains"],
                "--density", o["density"], "--outlier-prob", o["outlier_prob"], "--proposal", o["proposal"], "--concentration-value", o["concentration_value"],
                "--grid-size", o["grid_size"], "--num-particles", o["num_particles"], "--num-samples-data-point", o["num_samples_data_point"],
                "--num-samples-prune-regraph", o["num_samples_prune_regraph"], "--subtree-update-prob", o["subtree_update_prob"], "--precision", o["precision"],
                "--print-freq", o["print_freq"], "--resample-threshold", o["resample_threshold"], "--seed", o["seed"],
                "--concentration-update" if o["concentration_update"] else "--no-concentration-update"]
        if cluster_file:
            args += ["-c", cluster_file]
        env = dict(os.environ)
        env["PYTHONHASHSEED"] = str(hashseed)
        env["PYTHONPATH"] = runner.REPO
        if free_threads:
            # numerical libraries size their thread pools from the CPUs the process may use, as on a user's machine
            for k in ("NUMBA_NUM_THREADS", "OMP_NUM_THREADS", "OPENBLAS_NUM_THREADS", "MKL_NUM_THREADS"):
                env.pop(k, None)
            env["NUMBA_CACHE_DIR"] = os.path.join(d, "numba")
        cmd = (["taskset", "-c", cpus] if cpus else []) + [sys.executable, "-c", "from phyclone.cli import main; main()"] + [str(a) for a in args]
        r = subprocess.run(cmd, env=env, stdout=subprocess.PIPE, stderr=subprocess.PIPE, timeout=1500)
        if r.returncode != 0:
            return {"error": r.stderr.decode()[-500:], "digest": None}
        import gzip
        import hashlib
        import pickle

        import numpy as np

        with gzip.GzipFile(out_file, "rb") as fh:
            res = pickle.load(fh)
        dd = {str(ch): hashlib.sha256(b"".join(np.ascontiguousarray(x.value).tobytes() for x in v["data"])).hexdigest() for ch, v in res.items()}
        return {"error": None, "digest": digest(res), "order": list(res.keys()), "data_digest": dd}
    finally:
        import shutil

        shutil.rmtree(d, ignore_errors=True)


def real_run(item):
    """Observation of a real `phyclone run` with its real spawn pool (thorough tier only)."""
    seed, hashseed, pin = item
    out = _real(spec_for(seed), hashseed, "0" if pin else None)
    out["seed"] = seed
    return out


def cores_spec(seed):
    spec = wp.spec_from_seed(seed, boundary=False, finite_clock=False, clustered=True, n_mut=16, chains=1)
    o = spec["options"]
    o.update(num_chains=1, num_iters=12, burnin=2, thin=1, grid_size=random.Random(seed).choice([11, 21]), num_particles=3)
    return spec


def cores_run(item):
    """A real single-chain run on clustered input (clusters of several mutations) in a fresh interpreter that may use 1, 2
    or all CPUs, thread pools of the numerical libraries left to size themselves: C18's "number of available cores" as the
    operating system presents it.  One chain, no pool: the executions differ in nothing else, so the comparison is bitwise."""
    seed, cpus = item
    out = _real(cores_spec(seed), 0, cpus, free_threads=True)
    out["seed"] = seed
    out["cpus"] = cpus
    return out


def judge_cores(sd, outs):
    P_ = []
    ref0 = outs[0]
    for o2 in outs[1:]:
        what = "cpus %s vs %s" % (ref0["cpus"] or "all", o2["cpus"] or "all")
        if ref0["data_digest"] != o2["data_digest"]:
            P_.append(({"sub": "stored_data_differs", "perturbation": "available_cores"},
                       "the data stored in the trace differ bitwise between real runs of one seed (%s) | cores seed %d" % (what, sd)))
        elif json.dumps(ref0["digest"], sort_keys=True) != json.dumps(o2["digest"], sort_keys=True):
            P, b = compare(ref0["digest"], o2["digest"], "available_cores")
            key = P[0][0] if P else {"sub": "log_p_one_not_bitwise_equal", "perturbation": "available_cores"}
            P_.append((key, "single-chain real runs of one seed differ (%s): %s | cores seed %d" % (what, P[0][1] if P else "log_p_one values differ in the last bits", sd)))
    return P_[:1]


def dispatch(item):
    kind, arg = item
    return hash_seed_child(arg) if kind == "hash" else task(arg)


def run(ctx):
    wp.warm_up()
    quick = ctx.tier == "quick"
    seeds = [ctx.sub(("opt", i)) for i in range(24 if quick else 800)]
    hs = [1, 4242] if quick else [1, 7, 4242, 99999]
    # hash-seed children run in their own interpreters; they are launched from the (single-threaded) pool workers, never
    # from threads of this process: forking the pool while other threads run is a deadlock hazard
    chunks = [("hash", (h, seeds if quick else seeds[:120])) for h in hs]
    allres = runner.pmap(dispatch, chunks + [("task", s) for s in seeds], timeout=1500)
    hres = allres[: len(chunks)]
    res = allres[len(chunks):]
    refs = {}
    n_exec = 0
    sig = set()
    for out in res:
        n_exec += out["n_exec"]
        if out["skipped"]:
            ctx.probe("canonical_run_raised_left_to_C19")
            continue
        refs[out["seed"]] = out["ref"]
        sig.add((out["k"], len(next(iter(out["ref"].values())))))
        ctx.merge_counts("fault_kinds_fired", out["fired"])
        if out["bit"]:
            ctx.probe("log_p_one_equal_to_1e-9_but_not_bitwise", out["bit"])
        for key, detail in out["problems"]:
            ctx.violation(key, detail + " | option seed %d" % out["seed"], {"seed": out["seed"], "key": key, "kind": "schedule"})
    for hr in hres:
        for s, d in hr["out"].items():
            s = int(s)
            if s not in refs or d is None:
                continue
            n_exec += 1
            ctx.fault("hash.seed")
            P, b = compare(refs[s], d, "hashseed:%d" % hr["hashseed"])
            if b:
                ctx.probe("log_p_one_equal_to_1e-9_but_not_bitwise", b)
            for key, detail in P[:1]:
                ctx.violation(dict(key, perturbation="hashseed"), detail + " | option seed %d" % s, {"seed": s, "key": dict(key, perturbation="hashseed"), "kind": "hashseed", "hashseed": hr["hashseed"]})
    citems = [(ctx.sub(("cores", i)), cpus) for i in range(2 if quick else 12) for cpus in ("0", "0,1", None)]
    cres = runner.pmap(cores_run, citems, timeout=1500)
    by = {}
    for it, out in zip(citems, cres):
        if out["digest"] is None:
            ctx.probe("real_cores_run_failed")
            continue
        ctx.fault("os.available_cpus=%s" % (it[1] or "all"))
        by.setdefault(it[0], []).append(out)
    for sd, outs in by.items():
        n_exec += len(outs) - 1
        for key, detail in judge_cores(sd, outs):
            ctx.violation(key, detail, {"seed": sd, "key": key, "kind": "cores"})
    ctx.cov["real_single_chain_runs_on_1_2_all_cpus"] = sum(len(v) for v in by.values())
    if not quick:
        items = []
        for s in seeds[:6]:
            for h in (0, 31337):
                for pin in (False, True):
                    items.append((s, h, pin))
        rres = runner.pmap(real_run, items, timeout=1500)
        obs = 0
        for it, out in zip(items, rres):
            if out["digest"] is None or it[0] not in refs:
                ctx.probe("real_run_failed_or_unreferenced")
                continue
            obs += 1
            P, b = compare(refs[it[0]], out["digest"], "real_spawn_pool")
            for key, detail in P[:1]:
                ctx.violation(key, detail + " | option seed %d hashseed %d pinned=%s" % it, {"seed": it[0], "key": key, "kind": "real", "hashseed": it[1], "pin": it[2]})
        ctx.cov["real_executions_observed"] = obs
    if len(refs) < 0.75 * len(seeds):
        ctx.cannot_judge("only %d of %d canonical runs completed; reproducibility cannot be judged (see C19)" % (len(refs), len(seeds)))
    ctx.cov["evaluations"] = n_exec
    ctx.cov["distinct_nontrivial"] = len(sig) if len(sig) >= 2 else len(refs)
    ctx.cov["option_sets"] = len(seeds)
    ctx.cov["rule"] = ("per seeded option set (1-4 chains, 2-8 iterations, all proposals, outliers on/off, concentration update on/off): canonical execution "
                       "+ 10 perturbed schedules (arguments pickled at submit or only when the worker starts, start reversed, finish reversed, all chains on one simulated worker with warm memo caches, the OS reporting 1 or 2 available cores, another wall clock / working directory / environment, seeded "
                       "orders and worker assignment) + executions in fresh interpreters under other PYTHONHASHSEED values; one evaluation = one "
                       "simulated execution; per chain the sequence of (canonical tree, labels, alpha, iter) must be identical and log_p_one equal "
                       "to 1e-9 relative; distinct = distinct (chains, entries per chain) shapes")
    ctx.sample({"option_seed": seeds[0], "schedules": [s["name"] for s in schedules(random.Random(0), 3)], "hash_seeds": hs})
    ctx.cov["components"] = {"real": ["run.run incl. instantiate_and_seed_RNG and rng.spawn (untouched)", "run_phyclone_chain and all samplers", "load_data",
                                      "trace writer"],
                             "stand_in": ["ProcessPoolExecutor/as_completed -> SimExecutor: one simulated worker = one forked child of the warm simulator process (own "
                                          "address space); chains scheduled on the same worker run one after the other inside it; arguments and results cross a pickle "
                                          "boundary; what the OS reports as available cores is simulated in two schedules", "trace file -> SimFS", "clock -> SimClock"]}
    ctx.assumptions += ["interpreter start-up of spawned workers is not simulated; the real spawn pool is observed in the thorough tier only",
                        "a single-chain run is not compared with chain 0 of a multi-chain run (the code hands spawned generators to chains only when chains > 1)"]


def replay(ctx, obj):
    wp.warm_up()
    if obj["kind"] == "schedule":
        out = task(obj["seed"])
        for key, detail in out["problems"]:
            if key == obj["key"]:
                ctx.violation(key, detail, obj)
    elif obj["kind"] == "cores":
        outs = [cores_run((obj["seed"], cpus)) for cpus in ("0", "0,1", None)]
        for key, detail in judge_cores(obj["seed"], [o for o in outs if o["digest"] is not None]):
            if key == obj["key"]:
                ctx.violation(key, detail, obj)
    elif obj["kind"] == "hashseed":
        out = task(obj["seed"])
        hr = hash_seed_child((obj["hashseed"], [obj["seed"]]))
        P, b = compare(out["ref"], hr["out"][str(obj["seed"])], "hashseed:%d" % obj["hashseed"])
        for key, detail in P[:1]:
            ctx.violation(dict(key, perturbation="hashseed"), detail, obj)
    else:
        out = task(obj["seed"])
        rr = real_run((obj["seed"], obj["hashseed"], obj["pin"]))
        P, b = compare(out["ref"], rr["digest"], "real_spawn_pool")
        for key, detail in P[:1]:
            ctx.violation(key, detail, obj)
    ctx.cov["evaluations"] = 1

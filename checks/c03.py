"""C03  Joint log-density implements the FS-CRP model and depends only on the tree (refinement against an
independent reference model along simulated edit histories; history independence; == / hash)."""
from sim import bridge, editcheck

LEVEL = "exploration"
ORACLES = {"c03"}


def run(ctx):
    bridge.warm_up()
    quick = ctx.tier == "quick"
    editcheck.run_histories(ctx, ORACLES, 2500 if quick else 60000)
    editcheck.run_histories(ctx, ORACLES, 24 if quick else 1200, tag="fft", fft=True)
    ctx.cov["rule"] = ("seeded edit histories (1-8 data points, 1-3 samples, grids 3-11, alpha log-uniform in [0.01,100] and changed between "
                       "operations, outliers on/off, persistence faults); after every applied operation log_p, log_p_one and the fused variant "
                       "on the live tree are compared with the FS-CRP reference model (term by term from the statement, own O(G^2) grid "
                       "marginal) to 1e-8+1e-9|x|; 'rebuild_pair' operations manufacture a second live tree of the same abstract form "
                       "(other build order / relabelled / restored) and one of a different form for the ==/hash/history-independence clauses; "
                       "non-trivial = histories with >= 3 applied operations")
    ctx.cov["components"] = {"real": ["TreeJointDistribution.log_p / log_p_one / compute_both_log_p_and_log_p_one", "FSCRPDistribution",
                                      "Tree.__eq__/__hash__/get_clades", "DataPoint.outlier_marginal_prob", "Tree likelihood recursion (direct path)"],
                             "stand_in": []}
    ctx.assumptions += ["top-level-clone term is the normalised form 1000^-(R-1)/Z(R) pinned by the repository's test_root_term",
                        "a few histories per run use grids of 1000-1100 points (FFT convolution branch) with data inside a small dynamic range"]


def replay(ctx, obj):
    bridge.warm_up()
    editcheck.replay_history(ctx, obj)

"""C03  Joint log-density implements the FS-CRP model and depends only on the tree (refinement against an
independent reference model along simulated edit histories; history independence; == / hash)."""
from sim import bridge, editcheck

LEVEL = "exploration"
ORACLES = {"c03"}


def large_clone_task(item):
    """Trees with clones of hundreds of data points and clones with many children (as unclustered real inputs have):
    the densities against the reference model, and two construction histories against each other."""
    import math
    import random

    import numpy as np

    from phyclone.tree import FSCRPDistribution, Tree, TreeJointDistribution
    from sim import models
    from sim.models import Forest

    seed, m, kids = item
    r = random.Random(seed)
    n = m + kids + 2
    outl = r.random() < 0.5
    n_s = r.choice([1, 2, 3])
    levels = [0.0, -r.uniform(6, 14), r.uniform(4, 9)] if n_s > 1 and r.random() < 0.7 else None  # sample totals thousands of nats apart
    data = bridge.make_data(r, n, samples=n_s, grid=r.choice([3, 5]), style=r.choice(["flat", "narrow"]), outlier_prob=0.05 if outl else 0.0, sample_levels=levels)
    own = [frozenset(range(m))] + [frozenset([m + i]) for i in range(kids)] + [frozenset([m + kids])]
    parent = [-1] + [0] * kids + [-1]
    f = Forest(tuple(own), tuple(parent), frozenset([n - 1]) if outl else frozenset())
    if not outl:
        f = Forest(tuple(own[:-1]) + (own[-1] | {n - 1},), tuple(parent), frozenset())
    alpha = round(math.exp(r.uniform(-2, 2)), 4)
    td = TreeJointDistribution(FSCRPDistribution(alpha))
    t1 = bridge.build_tree(f, data)
    # second history: the big clone is filled one data point at a time
    t2 = Tree(data[0].grid_size)
    big = t2.create_root_node(children=[], data=[data[0]])
    for d in range(1, m):
        t2.add_data_point_to_node(data[d], big)
    names = []
    for i in range(kids):
        names.append(t2.create_root_node(children=[], data=[data[m + i]]))
    t3 = Tree.from_dict(t2.to_dict())  # children are attached to the big clone by regrafting the whole thing
    tt = bridge.build_tree(f, data, order=list(reversed(range(len(f.own)))))
    values = {d.idx: np.asarray(d.value) for d in data}
    out_prior = {d.idx: ((d.outlier_prob, d.outlier_prob_not) if d.outlier_prob != 0 else None) for d in data}
    problems = []
    want_m = models.fscrp_log_density(f, values, data[0].grid_size[1], alpha, out_prior, "marginal")
    want_1 = models.fscrp_log_density(f, values, data[0].grid_size[1], alpha, out_prior, "one")
    for name, tree in (("bottom-up", t1), ("reversed-order", tt)):
        try:
            got = (float(td.log_p(tree)), float(td.log_p_one(tree)))
            both = td.compute_both_log_p_and_log_p_one(tree)
        except Exception as e:
            problems.append(({"sub": "density_exception", "exc": type(e).__name__, "large": True}, "clone of %d data points with %d children: %r" % (m, kids, e)))
            continue
        for nm, g, w in (("log_p", got[0], want_m), ("log_p_one", got[1], want_1), ("both.log_p", float(both[0]), want_m), ("both.log_p_one", float(both[1]), want_1)):
            if not (abs(g - w) <= 1e-7 + 1e-9 * abs(w)):
                problems.append(({"sub": "model", "which": nm, "large": True}, "%s = %.10g, FS-CRP reference model gives %.10g for a clone of %d data points with %d children (%s build, alpha=%g)" % (
                    nm, g, w, m, kids, name, alpha)))
                break
    try:
        a, b = float(td.log_p_one(t2)), float(td.log_p_one(t3))
        if abs(a - b) > 1e-7 + 1e-9 * abs(a):
            problems.append(({"sub": "history_dependence", "large": True}, "restored copy of a tree with a %d-point clone: log_p_one %.10g vs %.10g" % (m, a, b)))
    except Exception as e:
        problems.append(({"sub": "density_exception", "exc": type(e).__name__, "large": True}, repr(e)))
    return {"problems": problems[:1], "m": m, "kids": kids}


def run(ctx):
    bridge.warm_up()
    sizes = [(1, 40), (64, 3), (127, 0), (128, 2), (129, 1), (130, 5), (255, 0), (256, 1), (257, 2), (258, 0), (300, 130), (20, 129), (20, 257)]
    if ctx.tier != "quick":
        sizes += [(511, 1), (512, 2), (513, 0), (1000, 10), (1025, 3), (5, 513)]
    from sim import runner

    items = [(ctx.sub(("large", i)), m_, k_) for i, (m_, k_) in enumerate(sizes)]
    for it, out in zip(items, runner.pmap(large_clone_task, items, timeout=1500)):
        for key, detail in out["problems"]:
            ctx.violation(key, detail, {"large": list(it), "key": key})
    ctx.probe("trees_with_clones_of_hundreds_of_data_points_or_children", len(items))
    quick = ctx.tier == "quick"
    editcheck.run_histories(ctx, ORACLES, 2500 if quick else 60000)
    editcheck.run_histories(ctx, ORACLES, 24 if quick else 1200, tag="fft", fft=True)
    ctx.cov["rule"] = ("seeded edit histories (1-8 data points, 1-3 samples optionally at levels hundreds of nats apart, grids 3-11, alpha log-uniform in [0.01,100] or extreme (1e-10..1e7) and changed between "
                       "operations, outliers on/off, persistence faults); after every applied operation log_p, log_p_one and the fused variant "
                       "on the live tree are compared with the FS-CRP reference model (term by term from the statement, own O(G^2) grid "
                       "marginal) to 1e-8+1e-9|x|; 'rebuild_pair' operations manufacture a second live tree of the same abstract form "
                       "(other build order / relabelled / restored) and one of a different form for the ==/hash/history-independence clauses; "
                       "non-trivial = histories with >= 3 applied operations")
    ctx.cov["components"] = {"real": ["TreeJointDistribution.log_p / log_p_one / compute_both_log_p_and_log_p_one", "FSCRPDistribution",
                                      "Tree.__eq__/__hash__/get_clades", "DataPoint.outlier_marginal_prob", "Tree likelihood recursion (direct path)"],
                             "stand_in": []}
    ctx.assumptions += ["top-level-clone term is the normalised form 1000^-(R-1)/Z(R) pinned by the repository's test_root_term",
                        "a few histories per run use grids of 1000-1100 points (FFT convolution branch) with data inside a small dynamic range"]


def replay(ctx, obj):
    bridge.warm_up()
    if obj.get("large"):
        out = large_clone_task(tuple(obj["large"]))
        for key, detail in out["problems"]:
            if key == obj["key"]:
                ctx.violation(key, detail, obj)
        ctx.cov["evaluations"] = 1
        return
    editcheck.replay_history(ctx, obj)

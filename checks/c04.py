"""C04  Data-point, prune-regraft and subtree moves (and the sweep body) leave the same posterior invariant.

Same machine as C01, applied to DataPointSampler, PruneRegraphSampler, ParticleGibbsSubtreeSampler and to one
iteration of run._run_main_sampler (the real loop body)."""
import random

from sim import bridge, kernelcheck, kernelmat, pgpath, runner
from sim.kernelcheck import PROPOSALS

LEVEL = "exploration"


def configs(ctx):
    quick = ctx.tier == "quick"
    out = []
    dc = kernelmat.default_config
    for op_ in (0.0, 0.01, 0.3):
        for n in (1, 2, 3):
            out.append(dc(op="dp", n=n, outlier_prob=op_, data_seed=21 + n))
            out.append(dc(op="prg", n=n, outlier_prob=op_, data_seed=31 + n, alpha=2.5))
    out.append(dc(op="dp", n=3, data_seed=58, outlier_prob=0.2, hetero=1))
    out.append(dc(op="prg", n=3, data_seed=59, outlier_prob=0.2, hetero=1, alpha=1.7))
    out.append(dc(op="dp", n=4, data_seed=25, alpha=0.4, samples=2))
    out.append(dc(op="dp", n=4, data_seed=26, outlier_prob=0.1))
    out.append(dc(op="prg", n=4, data_seed=27, alpha=3.0))
    out.append(dc(op="prg", n=4, data_seed=28, outlier_prob=0.2, style="peaked"))
    for prop in PROPOSALS:
        for wiring in ("run", "lib"):
            out.append(dc(op="subtree", n=2, proposal=prop, wiring=wiring, data_seed=41))
            out.append(dc(op="subtree", n=3, proposal=prop, wiring=wiring, data_seed=42, alpha=1.3))
        out.append(dc(op="subtree", n=2, proposal=prop, wiring="run", outlier_prob=0.2, data_seed=43))
        out.append(dc(op="sweep", n=2, proposal=prop, data_seed=44))
        out.append(dc(op="sweep", n=2, proposal=prop, data_seed=45, outlier_prob=0.2, alpha=0.6))
        out.append(dc(op="sweep", n=2, proposal=prop, data_seed=46, subtree_prob=0.5))
    out.append(dc(op="prg", n=5, style="flat", symmetric=1, data_seed=52, alpha=1.4))
    # the sweep with repeated passes (num_samples_data_point / num_samples_prune_regraph = 2), as the CLI allows
    out.append(dc(op="sweep", n=2, proposal="semi-adapted", data_seed=56, n_dp=2, n_prg=2, alpha=1.5))
    out.append(dc(op="sweep", n=2, proposal="bootstrap", data_seed=57, n_dp=1, n_prg=3, outlier_prob=0.2))
    out.append(dc(op="sweep", n=2, proposal="fully-adapted", data_seed=60, n_dp=3, n_prg=1, alpha=0.7))
    out.append(dc(op="sweep", n=2, proposal="bootstrap", data_seed=61, n_dp=1, n_prg=4, samples=3))
    out.append(dc(op="dp", n=3, data_seed=62, samples=3, outlier_prob=0.1, alpha=0.15))
    out.append(dc(op="prg", n=3, data_seed=63, samples=3, alpha=12.0))
    mandatory = len(out)
    out.append(dc(op="subtree", n=4, style="flat", symmetric=1, proposal="semi-adapted", wiring="run", data_seed=53))
    out.append(dc(op="sweep", n=3, proposal="semi-adapted", data_seed=47))
    r = random.Random(ctx.sub("cfg"))
    for i in range(30 if quick else 300):
        op = r.choice(["dp", "dp", "prg", "prg", "subtree", "sweep"])
        if op in ("dp", "prg"):
            c = kernelcheck.random_config(r, op, [2, 3, 3, 4], [2])
        elif op == "subtree":
            c = kernelcheck.random_config(r, op, [2, 3], [2, 2, 3])
        else:
            c = kernelcheck.random_config(r, op, [1, 2, 2] if quick else [2, 2, 3], [2])
        out.append(kernelcheck.cost_guard(c))
    if not quick:
        for prop in PROPOSALS:
            out.append(dc(op="subtree", n=4, proposal=prop, wiring="run", data_seed=48))
            out.append(dc(op="sweep", n=3, proposal=prop, data_seed=49, outlier_prob=0.1))
        out.append(dc(op="dp", n=5, style="flat", symmetric=1, data_seed=54, outlier_prob=0.0))
        out.append(dc(op="prg", n=5, style="flat", symmetric=1, data_seed=55, outlier_prob=0.2))
        out.append(dc(op="dp", n=5, data_seed=50))
        out.append(dc(op="prg", n=5, data_seed=51))
    return out, mandatory


def run(ctx):
    cfgs, N_MANDATORY = configs(ctx)
    bridge.warm_up()
    kernelcheck.check_pinned(ctx)
    kernelcheck.run_configs(ctx, cfgs, budget_s=70 if ctx.tier == "quick" else 3000, mandatory=N_MANDATORY)
    dc = kernelmat.default_config
    ro = random.Random(ctx.sub("orbit"))
    orbit_specs = [(dc(op="prg", n=7, data_seed=71, alpha=ro.choice([0.6, 1.0, 1.8]), samples=ro.choice([1, 2])), {"kind": "singletons"}),
                   (dc(op="prg", n=8, data_seed=72, alpha=ro.choice([0.6, 1.0, 1.8]), outlier_prob=0.2), {"kind": "singletons", "n_out": 1}),
                   (dc(op="dp", n=6, data_seed=73, alpha=ro.choice([0.6, 1.0, 1.8])), {"kind": "structure", "structure": [[[]]]})]
    if ctx.tier != "quick":
        orbit_specs += [(dc(op="dp", n=6, data_seed=74, alpha=1.3, outlier_prob=0.1), {"kind": "structure", "structure": [[], []], "outliers": True}),
                        (dc(op="dp", n=6, data_seed=75, alpha=0.8), {"kind": "structure", "structure": [[[], []]]}),
                        (dc(op="dp", n=7, data_seed=76, alpha=1.1), {"kind": "structure", "structure": [[], []]}),
                        (dc(op="prg", n=8, data_seed=77, alpha=1.4), {"kind": "singletons"}),
                        (dc(op="prg", n=6, data_seed=78, alpha=1.0, outlier_prob=0.3), {"kind": "all", "outliers": True})]
    kernelcheck.run_orbit_classes(ctx, orbit_specs, max_leaves=400000 if ctx.tier == "quick" else 4000000)
    rc = random.Random(ctx.sub("column"))
    col_specs = [(dc(op="prg", n=12, data_seed=rc.randrange(1 << 30), alpha=rc.choice([0.6, 1.0, 1.8]), style="gauss", grid=4), rc.randrange(1 << 30), "singletons"),
                 (dc(op="prg", n=17, data_seed=rc.randrange(1 << 30), alpha=rc.choice([0.6, 1.0, 1.8]), style="binom", grid=5, samples=2), rc.randrange(1 << 30), "pairs")]
    if ctx.tier != "quick":
        for n_ in (12, 13, 13, 16, 16, 20, 24):
            col_specs.append((dc(op="prg", n=n_, data_seed=rc.randrange(1 << 30), alpha=rc.choice([0.3, 1.0, 2.5]), style=rc.choice(["gauss", "binom", "peaked"]), grid=rc.choice([3, 5]),
                                 outlier_prob=rc.choice([0.0, 0.0, 0.1])), rc.randrange(1 << 30), rc.choice(["singletons", "pairs"])))
    kernelcheck.run_columns(ctx, col_specs)
    rs = random.Random(ctx.sub("statcfg"))
    stat_cfgs = [dc(op=op_, n=5, style=rs.choice(["binom", "gauss"]), grid=rs.choice([7, 11]), data_seed=rs.randrange(1 << 30), alpha=rs.choice([0.5, 1.0, 2.0]),
                    outlier_prob=rs.choice([0.0, 0.1])) for op_ in ("dp", "prg")]
    kernelcheck.run_stat_configs(ctx, stat_cfgs, 8000 if ctx.tier == "quick" else 200000)
    seeds = [ctx.sub(("path", i)) for i in range(120 if ctx.tier == "quick" else 4000)]
    res = [o for o in runner.pmap(pgpath.task, seeds, timeout=1200) if o["cfg"]["op"] == "subtree"]
    for out in res:
        for key, detail in out["problems"]:
            ctx.violation(key, detail + " | sampled path seed %d config %r" % (out["seed"], out["cfg"]), {"path_seed": out["seed"], "key": key})
    ctx.cov["sampled_subtree_updates_beyond_traversable_sizes"] = {"runs": len(res), "n": "4..7", "N": "2..10",
                                                                     "resamples": sum(o["stats"]["resamples"] for o in res)}
    ctx.cov["rule"] = ("configuration = (operation dp|prg|subtree|sweep, data set of n<=4 points, alpha, outlier probability, and for "
                       "subtree/sweep the proposal, particles, threshold, wiring); fixed cross plus seeded random ones; one evaluation "
                       "= one start state whose complete outcome tree of the move was traversed; sweep = one real iteration of "
                       "run._run_main_sampler; distinct_nontrivial = configurations whose exact kernel has off-diagonal mass")
    ctx.cov["components"] = {
        "real": ["phyclone.mcmc.gibbs_mh.DataPointSampler", "phyclone.mcmc.gibbs_mh.PruneRegraphSampler",
                 "phyclone.mcmc.particle_gibbs.ParticleGibbsSubtreeSampler", "phyclone.run._run_main_sampler (sweep)",
                 "phyclone.run.setup_kernel / setup_samplers", "phyclone.tree.*", "phyclone.smc.*"],
        "stand_in": ["numpy Generator -> sim.rng.SimGenerator (choose mode, replay DFS)", "Timer clock -> constant 0 (sweep)"]}
    ctx.assumptions += ["pi is exp(tree_dist.log_p_one) as computed by the code itself (C03 judges that value)",
                        "memo caches are cleared at the start of every leaf"]


def replay(ctx, obj):
    if "path_seed" in obj:
        bridge.warm_up()
        out = pgpath.task(obj["path_seed"])
        for key, detail in out["problems"]:
            if key == obj["key"]:
                ctx.violation(key, detail, obj)
        ctx.cov["evaluations"] = 1
        return
    kernelcheck.replay(ctx, obj)

"""C01  One particle-Gibbs update of the whole tree leaves the posterior (log_p_one) exactly invariant.

Seeded choice of configurations; for each, complete traversal of the random-outcome tree of
ParticleGibbsTreeSampler.sample_tree from every start state; exact transition matrix; pi K = pi to 1e-9."""
import random

from sim import kernelcheck, kernelmat, pgpath, runner
from sim.kernelcheck import PROPOSALS

LEVEL = "exploration"


def configs(ctx):
    quick = ctx.tier == "quick"
    out = []
    dc = kernelmat.default_config
    # systematic part: every proposal x both wirings x outliers off/on
    for prop in PROPOSALS:
        for wiring in ("run", "lib"):
            for op_ in (0.0, 0.3):
                out.append(dc(op="pg", n=2, proposal=prop, wiring=wiring, outlier_prob=op_, data_seed=11))
            out.append(dc(op="pg", n=1, proposal=prop, wiring=wiring, outlier_prob=0.01, data_seed=12))
            out.append(dc(op="pg", n=1, proposal=prop, wiring=wiring, outlier_prob=0.3, threshold=1.0, data_seed=12))
    for prop in PROPOSALS:
        # per-point outlier priors of different cluster sizes, as every pre-clustered run has
        out.append(dc(op="pg", n=2, proposal=prop, wiring="run", outlier_prob=0.2, hetero=1, data_seed=35, alpha=1.4))
        out.append(dc(op="pg", n=2, proposal=prop, wiring="run", threshold=1.0, alpha=0.2, data_seed=13))
        out.append(dc(op="pg", n=2, proposal=prop, wiring="lib", threshold=0.0, alpha=3.7, N=3, outlier_prob=0.01, data_seed=14))
        out.append(dc(op="pg", n=2, proposal=prop, wiring="run", threshold=1.0, N=3, outlier_prob=0.3, samples=2, data_seed=15))
        for wiring in ("run", "lib"):
            out.append(dc(op="pg", n=3, proposal=prop, wiring=wiring, data_seed=16, grid=5))
            out.append(dc(op="pg", n=3, proposal=prop, wiring=wiring, outlier_prob=0.1, alpha=2.5, data_seed=17))
    out.append(dc(op="pg", n=3, N=3, proposal="semi-adapted", wiring="run", threshold=0.5, data_seed=32, alpha=1.2))
    # resampling at every step with mathematically equal weights (the trigger must not hinge on rounding noise: fix d.. in /repo)
    out.append(dc(op="pg", n=2, N=3, proposal="fully-adapted", wiring="lib", threshold=1.0, data_seed=33, outlier_prob=0.1))
    out.append(dc(op="pg", n=2, N=3, proposal="bootstrap", wiring="run", threshold=1.0, data_seed=33, outlier_prob=0.1))
    out.append(dc(op="pg", n=2, N=3, proposal="semi-adapted", wiring="run", threshold=1.0, data_seed=34, outlier_prob=0.3, samples=2))
    # more particles than the random part draws, thresholds other than 0 / 0.5 / 1, three samples
    for k, prop in enumerate(PROPOSALS):
        out.append(dc(op="pg", n=1, N=8, proposal=prop, wiring="run", threshold=1.0, outlier_prob=0.3, data_seed=41))
        out.append(dc(op="pg", n=2, N=5, proposal=prop, wiring=("run", "lib", "run")[k], threshold=(0.0, 0.35, 0.5)[k], data_seed=42, alpha=(1.0, 0.4, 2.2)[k]))
        out.append(dc(op="pg", n=2, N=4, proposal=prop, wiring="run", threshold=0.8, samples=3, outlier_prob=(0.0, 0.2, 0.0)[k], data_seed=43))
        out.append(dc(op="pg", n=3, N=2, proposal=prop, wiring=("lib", "run", "run")[k], threshold=0.3, samples=3, data_seed=44, grid=4))
    r0 = random.Random(ctx.sub("sym"))
    # four exchangeable data points: one start state per orbit of the symmetric group determines the whole 243-state kernel
    out.append(dc(op="pg", n=4, style="flat", symmetric=1, proposal=r0.choice(PROPOSALS), wiring="run", alpha=r0.choice([0.7, 1.0, 2.3]), data_seed=29))
    mandatory = len(out)
    r = random.Random(ctx.sub("cfg"))
    for i in range(16 if quick else 200):
        c = kernelcheck.random_config(r, "pg", [1, 2, 2, 3, 3, 3], [2, 2, 3] if quick else [2, 2, 3, 4])
        if c["N"] >= 4 and c["n"] >= 3:
            c["N"] = 3
        out.append(kernelcheck.cost_guard(c))
    if not quick:
        for i in range(80):
            # boundary of the resampling trigger: every step resampled, equal weights frequent (flat data), N = 3 or 4
            out.append(dc(op="pg", n=2, N=r.choice([3, 3, 4]), threshold=r.choice([1.0, 1.0, 0.5]), proposal=r.choice(PROPOSALS), wiring=r.choice(["run", "lib"]),
                          data_seed=r.randrange(1 << 30), style=r.choice(["gauss", "flat", "peaked"]), outlier_prob=r.choice([0.0, 0.1, 0.3]),
                          alpha=r.choice([0.3, 1.0, 4.0]), samples=r.choice([1, 2])))
        for prop in PROPOSALS:
            out.append(dc(op="pg", n=2, N=5, proposal=prop, wiring="run", threshold=1.0, data_seed=45))
            out.append(dc(op="pg", n=2, N=6, proposal=prop, wiring="lib", threshold=0.0, outlier_prob=0.2, data_seed=46))
            out.append(dc(op="pg", n=1, N=12, proposal=prop, wiring="run", threshold=0.5, outlier_prob=0.3, data_seed=47))
            out.append(dc(op="pg", n=4, style="flat", symmetric=1, proposal=prop, wiring="lib", outlier_prob=0.2, data_seed=30, alpha=1.6))
            out.append(dc(op="pg", n=4, style="flat", symmetric=1, proposal=prop, wiring="run", N=3, data_seed=31))
            out.append(dc(op="pg", n=4, proposal=prop, wiring="run", data_seed=18, alpha=1.7))
            out.append(dc(op="pg", n=4, proposal=prop, wiring="lib", outlier_prob=0.05, data_seed=19))
            out.append(dc(op="pg", n=3, N=3, proposal=prop, wiring="run", threshold=1.0, data_seed=20))
    return out, mandatory


def run(ctx):
    cfgs, N_MANDATORY = configs(ctx)
    kernelcheck.run_configs(ctx, cfgs, budget_s=70 if ctx.tier == "quick" else 3000, mandatory=N_MANDATORY)
    dc = kernelmat.default_config
    if ctx.tier != "quick":
        ro = random.Random(ctx.sub("orbit"))
        kernelcheck.run_orbit_classes(ctx, [(dc(op="pg", n=5, N=2, proposal=ro.choice(PROPOSALS), wiring=ro.choice(["run", "lib"]), data_seed=79,
                                                alpha=ro.choice([0.7, 1.0, 1.6])), {"kind": "all"})], max_leaves=4000000)
    rs = random.Random(ctx.sub("statcfg"))
    stat_cfgs = [dc(op="pg", n=5, N=rs.choice([3, 5, 10]), style=rs.choice(["binom", "gauss"]), grid=rs.choice([7, 11]), proposal=p_, wiring=rs.choice(["run", "lib"]),
                    data_seed=rs.randrange(1 << 30), alpha=rs.choice([0.5, 1.0, 2.0]), outlier_prob=rs.choice([0.0, 0.0, 0.1]), threshold=rs.choice([0.5, 1.0]))
                 for p_ in (PROPOSALS if ctx.tier != "quick" else [rs.choice(PROPOSALS)])]
    # many particles (the run default is 80): three all-different data points, 30 particles - the update must not behave
    # differently from start trees of one, two and three clones
    stat_cfgs.append(dict(dc(op="pg", n=3, N=30, style=rs.choice(["binom", "gauss"]), grid=7, proposal=rs.choice(PROPOSALS), wiring="run", data_seed=rs.randrange(1 << 30),
                             alpha=rs.choice([1.0, 3.0]), threshold=0.5), stat_M=100000 if ctx.tier == "quick" else 400000))
    if ctx.tier != "quick":
        stat_cfgs.append(dict(dc(op="pg", n=5, N=80, style="binom", grid=7, proposal="bootstrap", wiring="run", data_seed=rs.randrange(1 << 30), alpha=1.0, threshold=0.5), stat_M=150000))
        stat_cfgs.append(dict(dc(op="pg", n=4, N=40, style="gauss", grid=7, proposal="semi-adapted", wiring="lib", data_seed=rs.randrange(1 << 30), alpha=2.0, threshold=0.5), stat_M=200000))
    kernelcheck.run_stat_configs(ctx, stat_cfgs, 8000 if ctx.tier == "quick" else 150000)
    # beyond the traversable sizes: sampled paths with path-local oracles only (can refute, never confirm)
    seeds = [ctx.sub(("path", i)) for i in range(160 if ctx.tier == "quick" else 6000)]
    res = runner.pmap(pgpath.task, seeds, timeout=1200)
    st = {"resamples": 0, "updates": 0, "retained_duplicated": 0}
    for out in res:
        if out["cfg"]["op"] != "pg":
            continue
        for k in st:
            st[k] += out["stats"][k]
        for key, detail in out["problems"]:
            ctx.violation(key, detail + " | sampled path seed %d config %r" % (out["seed"], out["cfg"]), {"path_seed": out["seed"], "key": key})
    ctx.cov["sampled_paths_beyond_traversable_sizes"] = {"runs": sum(1 for o in res if o["cfg"]["op"] == "pg"), "n": "4..7", "N": "2..10", **st}
    ctx.probe("resampling_triggered_in_sampled_paths", st["resamples"])
    ctx.probe("retained_particle_duplicated_by_resampling", st["retained_duplicated"])
    ctx.cov["rule"] = ("configuration = (data set of n<=3 (thorough: 4) points, alpha, proposal, particles N, threshold, outlier "
                       "probability, wiring run|lib); a fixed cross of proposals x wirings x outliers plus seeded random ones; one "
                       "evaluation = one start state whose complete outcome tree of ParticleGibbsTreeSampler.sample_tree was "
                       "traversed (all permutation, proposal, resampling and selection outcomes); distinct_nontrivial = "
                       "configurations whose exact kernel has off-diagonal mass")
    ctx.cov["components"] = {
        "real": ["phyclone.mcmc.particle_gibbs.ParticleGibbsTreeSampler", "phyclone.smc.samplers.ConditionalSMCSampler",
                 "phyclone.smc.kernels.* (3 proposals)", "phyclone.smc.swarm.*", "phyclone.smc.utils.RootPermutationDistribution",
                 "phyclone.run.setup_kernel / setup_samplers (wiring 'run')", "phyclone.tree.*"],
        "stand_in": ["numpy Generator -> sim.rng.SimGenerator (choose mode, replay DFS)"]}
    ctx.assumptions += ["pi is exp(tree_dist.log_p_one) as computed by the code itself on freshly built trees (C03 judges that value)",
                        "memo caches are cleared at the start of every leaf so a leaf is a pure function of its choice script",
                        "k-subset choices are returned in population order (orders merged); shuffles of equal sentinels merged"]


def replay(ctx, obj):
    if "path_seed" in obj:
        from sim import bridge

        bridge.warm_up()
        out = pgpath.task(obj["path_seed"])
        for key, detail in out["problems"]:
            if key == obj["key"]:
                ctx.violation(key, detail, obj)
        ctx.cov["evaluations"] = 1
        return
    kernelcheck.replay(ctx, obj)

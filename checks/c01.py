"""C01  One particle-Gibbs update of the whole tree leaves the posterior (log_p_one) exactly invariant.

Seeded choice of configurations; for each, complete traversal of the random-outcome tree of
ParticleGibbsTreeSampler.sample_tree from every start state; exact transition matrix; pi K = pi to 1e-9."""
import random

from sim import kernelcheck, kernelmat
from sim.kernelcheck import PROPOSALS

LEVEL = "exploration"


def configs(ctx):
    quick = ctx.tier == "quick"
    out = []
    dc = kernelmat.default_config
    # systematic part: every proposal x both wirings x outliers off/on
    for prop in PROPOSALS:
        for wiring in ("run", "lib"):
            for op_ in (0.0, 0.3):
                out.append(dc(op="pg", n=2, proposal=prop, wiring=wiring, outlier_prob=op_, data_seed=11))
            out.append(dc(op="pg", n=1, proposal=prop, wiring=wiring, outlier_prob=0.01, data_seed=12))
            out.append(dc(op="pg", n=1, proposal=prop, wiring=wiring, outlier_prob=0.3, threshold=1.0, data_seed=12))
    for prop in PROPOSALS:
        out.append(dc(op="pg", n=2, proposal=prop, wiring="run", threshold=1.0, alpha=0.2, data_seed=13))
        out.append(dc(op="pg", n=2, proposal=prop, wiring="lib", threshold=0.0, alpha=3.7, N=3, outlier_prob=0.01, data_seed=14))
        out.append(dc(op="pg", n=2, proposal=prop, wiring="run", threshold=1.0, N=3, outlier_prob=0.3, samples=2, data_seed=15))
        for wiring in ("run", "lib"):
            out.append(dc(op="pg", n=3, proposal=prop, wiring=wiring, data_seed=16, grid=5))
            out.append(dc(op="pg", n=3, proposal=prop, wiring=wiring, outlier_prob=0.1, alpha=2.5, data_seed=17))
    r = random.Random(ctx.sub("cfg"))
    for i in range(16 if quick else 200):
        c = kernelcheck.random_config(r, "pg", [1, 2, 2, 3, 3, 3], [2, 2, 3] if quick else [2, 2, 3, 4])
        if c["N"] >= 4 and c["n"] >= 3:
            c["N"] = 3
        out.append(kernelcheck.cost_guard(c))
    if not quick:
        for prop in PROPOSALS:
            out.append(dc(op="pg", n=4, proposal=prop, wiring="run", data_seed=18, alpha=1.7))
            out.append(dc(op="pg", n=4, proposal=prop, wiring="lib", outlier_prob=0.05, data_seed=19))
            out.append(dc(op="pg", n=3, N=3, proposal=prop, wiring="run", threshold=1.0, data_seed=20))
    return out


def run(ctx):
    cfgs = configs(ctx)
    kernelcheck.run_configs(ctx, cfgs, budget_s=75 if ctx.tier == "quick" else 3000)
    ctx.cov["rule"] = ("configuration = (data set of n<=3 (thorough: 4) points, alpha, proposal, particles N, threshold, outlier "
                       "probability, wiring run|lib); a fixed cross of proposals x wirings x outliers plus seeded random ones; one "
                       "evaluation = one start state whose complete outcome tree of ParticleGibbsTreeSampler.sample_tree was "
                       "traversed (all permutation, proposal, resampling and selection outcomes); distinct_nontrivial = "
                       "configurations whose exact kernel has off-diagonal mass")
    ctx.cov["components"] = {
        "real": ["phyclone.mcmc.particle_gibbs.ParticleGibbsTreeSampler", "phyclone.smc.samplers.ConditionalSMCSampler",
                 "phyclone.smc.kernels.* (3 proposals)", "phyclone.smc.swarm.*", "phyclone.smc.utils.RootPermutationDistribution",
                 "phyclone.run.setup_kernel / setup_samplers (wiring 'run')", "phyclone.tree.*"],
        "stand_in": ["numpy Generator -> sim.rng.SimGenerator (choose mode, replay DFS)"]}
    ctx.assumptions += ["pi is exp(tree_dist.log_p_one) as computed by the code itself on freshly built trees (C03 judges that value)",
                        "memo caches are cleared at the start of every leaf so a leaf is a pure function of its choice script",
                        "k-subset choices are returned in population order (orders merged); shuffles of equal sentinels merged"]


def replay(ctx, obj):
    kernelcheck.replay(ctx, obj)

"""C07  Every tree is a well-formed forest; no move loses or duplicates data."""
from sim import bridge, editcheck

LEVEL = "exploration"
ORACLES = {"c07"}


def run(ctx):
    bridge.warm_up()
    quick = ctx.tier == "quick"
    editcheck.run_histories(ctx, ORACLES, 4000 if quick else 100000)
    editcheck.run_histories(ctx, ORACLES, 60 if quick else 3000, tag="big", fft="big")
    editcheck.run_workloads(ctx, ORACLES, 160 if quick else 5000)
    ctx.cov["rule"] = ("seeded edit histories in the samplers' grammar (1-8 and, in a separate batch, 12-60 data points) with persistence faults; after every applied operation the live tree "
                       "(and its un-restored twin) must satisfy the well-formedness predicate (one root, in-degree 1, reachability, unique "
                       "names, inverse index maps, payload data = data lists, disjoint cover of exactly the inserted data, read API agrees "
                       "with the graph) and map to the reference forest; plus real sampler chains (burn-in SMC, particle Gibbs, subtree, "
                       "data-point, prune-regraft, relabel) with the predicate after every outermost Tree call and conservation at every "
                       "sample_tree boundary; non-trivial = histories with >= 3 applied operations / chains with > 20 monitored calls")
    ctx.cov["components"] = {"real": ["phyclone.tree.Tree and visitors", "all five samplers via run.run_phyclone_chain", "ConditionalSMCSampler._get_constrained_path"],
                             "stand_in": ["workload rng: SimGenerator record mode (real numpy stream)"]}
    ctx.assumptions += ["an exception escaping a Tree method during a grammar-conformant history counts as a violation",
                        "exceptions raised outside phyclone/tree during sampler workloads are left to C19"]


def replay(ctx, obj):
    bridge.warm_up()
    if obj.get("world") == "samplers":
        editcheck.replay_workload(ctx, obj)
    else:
        editcheck.replay_history(ctx, obj)

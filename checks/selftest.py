"""Self-tests of the simulator: determinism of every world (same sub-seed twice, different worker processes, worker
counts 1 and 16, fresh interpreter under another PYTHONHASHSEED) and fidelity of the simulated generator against numpy."""
import hashlib
import json
import math
import os
import random
import subprocess
import sys

import numpy as np

from sim import bridge, kernelmat, runner
from sim.rng import SimGenerator, explore

LEVEL = "other"


def dig(o):
    return hashlib.blake2b(json.dumps(runner._jsonable(o), sort_keys=True).encode(), digest_size=8).hexdigest()


def unit(item):
    """Run one unit of one world and return a digest of everything it observed."""
    world, seed = item
    if world == "c09":
        from checks import c09
        from sim import models

        r = random.Random(seed)
        f = c09.random_forest(r, r.choice([3, 4, 5, 6]))
        return dig(c09.check_forest((c09.forest_json(f), seed)))
    if world == "kernel":
        from sim import kernelcheck

        r = random.Random(seed)
        c = kernelcheck.cost_guard(kernelcheck.random_config(r, r.choice(["pg", "dp", "prg", "subtree"]), [1, 2, 2, 3], [2]))
        cx = kernelmat.context(c)
        si = r.randrange(len(cx["trees"]))
        out = kernelmat.row((c, si, 500000))
        out["row"] = {str(k): round(v, 14) for k, v in out["row"].items()}
        out.pop("scripts", None)
        return dig(out)
    if world == "c08":
        from checks import c08

        r = random.Random(seed)
        cfg = dict(proposal=r.choice(c08.PROPOSALS), opp=r.choice([0.0, 0.1, 0.5]), perm=r.random() < 0.5, alpha=1.3, data_seed=seed % (1 << 30),
                   depth=3, samples=1, grid=4, style="gauss", outlier_prob=0.05, swarm_runs=2, swarm_N=3)
        out = c08.run_config(cfg)
        return dig({"stats": {k: v for k, v in out["stats"].items()}, "problems": [(k, d) for k, d, _ in out["problems"]]})
    if world == "edit":
        from sim import editcheck

        out = editcheck.history_task((seed, ["c03", "c06", "c07", "c15"], False))
        return dig(out)
    if world == "workload":
        from sim import editcheck

        out = editcheck.sampler_workload((seed, ["c06", "c07"]))
        return dig(out)
    if world == "c19":
        from checks import c19

        return dig(c19.task(seed))
    if world == "c15b":
        from checks import c15

        return dig(c15.trace_task(seed))
    if world == "summary":
        from sim import summarycheck

        return dig(summarycheck.summary_task((seed, random.Random(seed).choice(["C11", "C12", "C16"]))))
    if world == "c14":
        from checks import c14

        return dig(c14.task(seed))
    if world == "c18":
        from checks import c18

        out = c18.task(seed)
        return dig(out)
    if world == "c13":
        from checks import c13

        a = c13.device_task(seed)
        a["sig"] = sorted(map(repr, a["sig"]))
        return dig([a, c13.loop_task(seed)])
    if world == "c20":
        from checks import c20

        return dig(c20.prefix_task((seed, 100, 140)))
    raise ValueError(world)


WORLDS = ["c09", "kernel", "c08", "edit", "workload", "c19", "c15b", "summary", "c14", "c18", "c13", "c20"]


def items_for(seed, per_world):
    out = []
    for w in WORLDS:
        n = per_world if w not in ("c18", "c20", "c13") else max(2, per_world // 4)
        for i in range(n):
            out.append((w, runner.subseed(seed, "selftest-" + w, i)))
    return out


def fidelity():
    """Simulated generator vs numpy: validation, shapes, closed-form probabilities, frequencies."""
    bad = []
    ref = np.random.default_rng(0)
    # argument validation mirrors numpy
    for name, call in (("choice_empty", lambda g: g.choice([])), ("choice_too_many", lambda g: g.choice([1, 2], 3, replace=False)),
                       ("multinomial_nan", lambda g: g.multinomial(1, [float("nan"), 0.5])), ("multinomial_neg", lambda g: g.multinomial(1, [-0.1, 1.1])),
                       ("multinomial_sum", lambda g: g.multinomial(1, [0.7, 0.7, 0.1])), ("integers_empty", lambda g: g.integers(3, 3))):
        exp = None
        try:
            call(ref)
        except Exception as e:
            exp = type(e).__name__
        got = None
        try:
            call(SimGenerator(mode="choose"))
        except Exception as e:
            got = type(e).__name__
        if exp != got:
            bad.append("%s: numpy raises %r, simulated generator %r" % (name, exp, got))
    # return types
    g = SimGenerator(mode="choose")
    if not isinstance(g.choice([3, 4]), np.integer) or g.choice([1, 2, 3], 0, replace=False).shape != (0,):
        bad.append("choice return type / empty-subset shape")
    if g.multinomial(1, [0.2, 0.8]).dtype != ref.multinomial(1, [0.2, 0.8]).dtype:
        bad.append("multinomial dtype")
    if not isinstance(g.integers(0, 3), np.integer):
        bad.append("integers return type")
    # exact outcome distributions
    def dist(fn):
        d = {}
        for res, p, _ in explore(fn):
            d[res] = d.get(res, 0.0) + p
        return d

    d = dist(lambda g: tuple(_shuf(g, [0, 0, 1])))
    if len(d) != 3 or any(abs(v - 1 / 3) > 1e-12 for v in d.values()):
        bad.append("shuffle of sentinels [0,0,1]: %r" % d)
    d = dist(lambda g: tuple(_shuf(g, ["a", "b", "c", "d"])))
    if len(d) != 24 or any(abs(v - 1 / 24) > 1e-12 for v in d.values()):
        bad.append("shuffle of 4 distinct items")
    d = dist(lambda g: tuple(int(x) for x in g.choice([5, 6, 7, 8], 2, replace=False)))
    if len(d) != 6 or any(abs(v - 1 / 6) > 1e-12 for v in d.values()):
        bad.append("2-subsets of 4: %r" % d)
    p = [0.2, 0.5, 0.3]
    d = dist(lambda g: tuple(int(x) for x in g.multinomial(3, p)))
    for k, v in d.items():
        want = math.factorial(3) / np.prod([math.factorial(c) for c in k]) * np.prod([pp ** c for pp, c in zip(p, k)])
        if abs(v - want) > 1e-12:
            bad.append("multinomial(3,p) outcome %r: %r vs %r" % (k, v, want))
    if len(d) != 10:
        bad.append("multinomial(3,p) has %d outcomes" % len(d))
    d = dist(lambda g: (g.random() < 0.25, ))
    if abs(d[(True,)] - 0.25) > 1e-15:
        bad.append("LazyUniform threshold")

    def two(g):
        u = g.random()
        return (bool(u < 0.45), bool(u < 0.9))
    d = dist(two)
    if abs(d[(True, True)] - 0.45) > 1e-12 or abs(d[(False, True)] - 0.45) > 1e-12 or abs(d[(False, False)] - 0.1) > 1e-12 or (True, False) in d:
        bad.append("LazyUniform interval narrowing: %r" % d)
    # frequencies of the real generator vs the model's probabilities (guards the model of the device)
    rg = np.random.default_rng(12345)
    cnt = {}
    N = 60000
    for _ in range(N):
        x = [0, 0, 1, 2]
        rg.shuffle(x)
        cnt[tuple(x)] = cnt.get(tuple(x), 0) + 1
    dm = dist(lambda g: tuple(_shuf(g, [0, 0, 1, 2])))
    chi = sum((cnt.get(k, 0) - N * v) ** 2 / (N * v) for k, v in dm.items())
    if set(cnt) != set(dm) or chi > 60:  # 11 dof, generous
        bad.append("numpy shuffle frequencies vs model: chi2=%.1f" % chi)
    cnt = {}
    for _ in range(N):
        k = tuple(sorted(int(v) for v in rg.choice([1, 2, 3, 4, 5], 2, replace=False)))
        cnt[k] = cnt.get(k, 0) + 1
    chi = sum((c - N / 10) ** 2 / (N / 10) for c in cnt.values())
    if len(cnt) != 10 or chi > 50:
        bad.append("numpy 2-subset frequencies vs uniform: chi2=%.1f" % chi)
    # record mode is bit-for-bit numpy
    a = SimGenerator(mode="record", seed=99)
    b = np.random.default_rng(99)
    if not (a.random() == b.random() and int(a.integers(0, 10)) == int(b.integers(0, 10)) and list(a.multinomial(5, [0.3, 0.7])) == list(b.multinomial(5, [0.3, 0.7]))):
        bad.append("record mode differs from numpy default_rng stream")
    ka, kb = a.spawn(2), b.spawn(2)
    if ka[1].random() != kb[1].random():
        bad.append("record mode spawn differs from numpy")
    return bad


def _shuf(g, x):
    g.shuffle(x)
    return x


def run(ctx):
    from sim import world_pipeline as wp

    if os.environ.get("VERIF_SELFTEST_CHILD"):
        wp.warm_up()
        items = json.loads(os.environ["VERIF_SELFTEST_CHILD"])
        out = [unit(tuple(it)) for it in items]
        print("SELFTESTCHILD" + json.dumps(out))
        ctx.replaying = True
        return
    wp.warm_up()
    quick = ctx.tier == "quick"
    bad = fidelity()
    for b in bad:
        ctx.violation({"sub": "generator_fidelity", "what": b.split(":")[0]}, b, {"fidelity": b})
    items = items_for(ctx.seed, 6 if quick else 40)
    A = runner.pmap(unit, items, timeout=1500)
    B = runner.pmap(unit, list(reversed(items)), timeout=1500)[::-1]  # other task-to-worker assignment
    sub = items[:: (4 if quick else 8)]
    saved = os.environ.get("VERIF_WORKERS")
    os.environ["VERIF_WORKERS"] = "1"
    try:
        C = runner.pmap(unit, sub)  # worker count 1: in the parent process
    finally:
        if saved is None:
            os.environ.pop("VERIF_WORKERS", None)
        else:
            os.environ["VERIF_WORKERS"] = saved
    env = dict(os.environ)
    env["PYTHONHASHSEED"] = "777"
    env["VERIF_SELFTEST_CHILD"] = json.dumps(sub)
    env["VERIF_NO_CONFIRM"] = "1"
    r = subprocess.run([os.path.join(runner.VERIF, "check"), "selftest"], env=env, stdout=subprocess.PIPE, stderr=subprocess.PIPE, timeout=3000)
    D = None
    for line in r.stdout.decode().splitlines():
        if line.startswith("SELFTESTCHILD"):
            D = json.loads(line[13:])
    if D is None:
        raise runner.HarnessError("fresh-interpreter child gave no digests: %s" % r.stderr.decode()[-600:])
    mism = 0
    for it, a, b in zip(items, A, B):
        if a != b:
            mism += 1
            ctx.violation({"sub": "nondeterministic", "world": it[0], "how": "same sub-seed twice in different workers"}, "world %s seed %d: digests %s vs %s" % (it[0], it[1], a, b), {"item": it})
    amap = dict(zip(map(tuple, items), A))
    for it, c, d in zip(sub, C, D):
        if amap[tuple(it)] != c:
            mism += 1
            ctx.violation({"sub": "nondeterministic", "world": it[0], "how": "worker count 1 vs 16"}, "world %s seed %d" % (it[0], it[1]), {"item": it})
        if amap[tuple(it)] != d:
            mism += 1
            ctx.violation({"sub": "nondeterministic", "world": it[0], "how": "fresh interpreter, PYTHONHASHSEED=777"}, "world %s seed %d" % (it[0], it[1]), {"item": it})
    ctx.cov["evaluations"] = len(items) * 2 + len(sub) * 2
    ctx.cov["distinct_nontrivial"] = len(items)
    ctx.cov["explanation"] = ("determinism: %d units over %d worlds executed twice in different worker processes; %d of them again with worker count 1 "
                              "and in a fresh interpreter under PYTHONHASHSEED=777; digests cover every recorded observation of the unit; "
                              "%d mismatches.  generator fidelity: %d discrepancies against numpy" % (len(items), len(WORLDS), len(sub), mism, len(bad)))
    ctx.cov["rule"] = "unit = one task of one world (one forest, one start state's outcome tree, one edit history, one simulated run, ...) identified by its sub-seed"
    ctx.cov["samples"] = [{"world": it[0], "seed": it[1], "digest": a} for it, a in list(zip(items, A))[:4]]
    ctx.cov["worlds"] = WORLDS


def replay(ctx, obj):
    from sim import world_pipeline as wp

    wp.warm_up()
    if "item" in obj:
        a = unit(tuple(obj["item"]))
        b = unit(tuple(obj["item"]))
        if a != b:
            ctx.violation({"sub": "nondeterministic"}, "digests differ within one process", obj)
    ctx.cov["evaluations"] = 1

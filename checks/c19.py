"""C19  A run on valid input completes and records only finite, complete trees (option cross-product, boundary-biased)."""
import math

from sim import runner, trace_model, world_pipeline as wp

LEVEL = "exploration"


def cost(spec):
    o = spec["options"]
    n = len(set(r["mutation_id"] for r in spec["inputs"]["rows"]))
    return (o["burnin"] + o["num_iters"]) * o["num_particles"] * n * o["num_chains"] * (o["grid_size"] / 11.0)


def evaluate(spec):
    """Run one simulated `phyclone run` described completely by `spec` and judge it.  Returns (problems, info)."""
    spec = dict(spec)
    if spec.get("max_time") == "inf":
        spec["max_time"] = float("inf")
    spec["draw_budget"] = 5000000  # per generator; a run that needs more is reported as a hang (StepBudgetExceeded)
    h = wp.run_pipeline(spec)
    problems = []
    o = spec["options"]
    klass = {"outlier_prob_one": o["outlier_prob"] >= 1.0}
    if h["exception"] is not None:
        problems.append((dict(klass, sub="exception", exc=h["exception"]["type"], where=h["exception"]["where"]),
                         "%s at %s: %s" % (h["exception"]["type"], h["exception"]["where"], h["exception"]["msg"])))
    n_entries = 0
    if h["results"] is not None:
        n_data = None
        for ch, res in h["results"].items():
            n_data = len(res["data"])
            for i, e in enumerate(res["trace"]):
                n_entries += 1
                if not math.isfinite(float(e["log_p_one"])):
                    problems.append((dict(klass, sub="log_p_one_not_finite"), "chain %s entry %d has log_p_one=%r" % (ch, i, e["log_p_one"])))
                    break
                f = trace_model.forest_from_image(e["tree"])
                pts = set(f.outliers).union(*f.own) if f.own else set(f.outliers)
                if pts != set(range(n_data)):
                    problems.append((dict(klass, sub="incomplete_entry"), "chain %s entry %d holds data %r of %d" % (ch, i, sorted(pts), n_data)))
                    break
        want = spec["inputs"].get("expect_names")
        if want is not None:
            for ch, res in h["results"].items():
                got = sorted(str(d.name) for d in res["data"])
                if got != sorted(want):
                    problems.append((dict(klass, sub="loaded_mutations"), "chain %s ran on mutations %r; the input's complete, unduplicated, non-deleted mutations are %r" % (ch, got, want)))
                    break
        if set(h["results"].keys()) != set(range(o["num_chains"])):
            problems.append((dict(klass, sub="chains_missing"), "trace has chains %r, asked for %d" % (sorted(h["results"]), o["num_chains"])))
    for a in h["appended"]:
        if a["wellformed"]:
            problems.append((dict(klass, sub="entry_ill_formed", code=a["wellformed"][0][0]), a["wellformed"][0][1]))
            break
    return problems[:2], {"entries": n_entries, "iters": h["iter_calls"], "stats": h["stats"], "sim_time": h.get("sim_time", 0.0),
                          "clock_reads": sum(h.get("clock_reads", []))}


def jsonable_spec(spec):
    s = {k: v for k, v in spec.items() if k != "draw_budget"}
    if isinstance(s.get("max_time"), float) and math.isinf(s["max_time"]):
        s["max_time"] = "inf"
    return s


def minimise(spec, key, budget_s=60):
    def fails(sp):
        try:
            probs, _ = evaluate(sp)
        except Exception:
            return False
        return any(k == key for k, _ in probs)

    return wp.minimise_spec(spec, fails, budget_s)


def widen(spec, seed):
    """A quarter of the runs leave the small standard ranges: more mutations and samples, deep reads, high copy numbers,
    other grid sizes and precisions, more iterations and particles (the cost cap still applies)."""
    import random

    r = random.Random(seed ^ 0xC19)
    u = r.random()
    if u < 0.015:
        # a run as large as real inputs: hundreds of mutations in one starting clone (table sizes, growth of lookup tables)
        n_mut = r.choice([64, 127, 128, 129, 130, 255, 256, 257, 258, 300])
        big = wp.gen_inputs(r, n_mut=n_mut, n_samples=r.choice([1, 2]), clustered=False)
        spec["inputs"] = big
        spec["options"].update(num_iters=1, thin=1, num_particles=1, grid_size=11, burnin=1, subtree_update_prob=0.0, num_samples_data_point=0,
                               num_samples_prune_regraph=r.choice([0, 1]), proposal="bootstrap", num_chains=1, outlier_prob=r.choice([0.0, 0.01]),
                               concentration_update=r.random() < 0.5)
        spec["big"] = True
        return spec
    if u < 0.03:
        # the FFT convolution branch (grids from 1000 points)
        spec["inputs"] = wp.gen_inputs(r, n_mut=r.choice([2, 3, 4]), n_samples=1, clustered=False)
        spec["options"].update(grid_size=r.choice([1000, 1001, 1024]), num_iters=r.choice([1, 2]), num_particles=2, num_chains=1, burnin=1)
        spec["big"] = True
        return spec
    if u >= 0.30:
        return spec
    n_mut = r.choice([9, 12, 16, 25, 40])
    n_samples = r.choice([1, 2, 4, 5])
    samples = ["T%d" % i for i in range(n_samples)]
    rows = []
    for m in range(n_mut):
        for s_ in samples:
            depth = r.choice([30, 200, 2000, 10000, 50000])
            major = r.choice([1, 2, 3, 5, 6])
            minor = r.choice([x for x in (0, 1, 2, 3) if x <= major])
            vaf = min(0.97, r.choice([1.0, 0.6, 0.3, 0.05, 0.0]) / (major + minor))
            alt = int(round(depth * vaf * r.uniform(0.8, 1.2)))
            alt = max(0, min(depth, alt))
            rows.append({"mutation_id": "var %d/%s" % (m, "x" * (m % 3)), "sample_id": s_, "ref_counts": depth - alt, "alt_counts": alt, "major_cn": major,
                         "minor_cn": minor, "normal_cn": r.choice([2, 2, 1]), "tumour_content": r.choice([1.0, 0.999, 0.3]), "error_rate": r.choice([0.001, 0.01])})
    r.shuffle(rows)
    cols = ["mutation_id", "sample_id", "ref_counts", "alt_counts", "major_cn", "minor_cn", "normal_cn", "tumour_content", "error_rate"]
    spec["inputs"] = {"rows": rows, "cols": cols, "sep": "\t", "samples": samples, "cluster_rows": None}
    if r.random() < 0.4:
        ids = r.sample(range(100, 100000), r.randint(2, 6))
        names = sorted(set(row["mutation_id"] for row in rows))
        spec["inputs"]["cluster_rows"] = [{"mutation_id": m_, "sample_id": s_, "cluster_id": ids[i % len(ids)]} for i, m_ in enumerate(names) for s_ in samples]
    o = spec["options"]
    o["grid_size"] = r.choice([12, 15, 33, 50, 101])
    o["precision"] = r.choice([5.0, 400.0, 1000.0])
    o["num_iters"] = r.choice([3, 45, 60])
    o["num_particles"] = r.choice([2, 8, 30])
    o["num_samples_data_point"] = r.choice([1, 3])
    return spec


def add_rows_the_loader_drops(spec, seed):
    """Valid input files also hold rows the loader is documented to set aside: mutations with major copy number 0 in some
    sample, mutations absent from some sample, duplicated mutation ids.  The run must complete on the rest - and load exactly
    the rest."""
    import random

    r = random.Random(seed ^ 0xD509)
    inp = spec["inputs"]
    if inp.get("cluster_rows") or r.random() >= 0.2:
        return spec
    samples = inp["samples"]
    keep = sorted(set(row["mutation_id"] for row in inp["rows"]))
    tmpl = dict(inp["rows"][0])
    extra = []
    kinds = r.sample(["zero_cn", "partial", "duplicate"], r.randint(1, 3))
    for kind in kinds:
        name = "drop_%s" % kind
        for si, s_ in enumerate(samples):
            row = dict(tmpl, mutation_id=name, sample_id=s_)
            if kind == "zero_cn" and si == 0:
                row.update(major_cn=0, minor_cn=0)
            if kind == "partial" and si == 0 and len(samples) > 1:
                continue
            extra.append(row)
            if kind == "duplicate":
                extra.append(dict(row))
        if kind == "partial" and len(samples) == 1:
            keep.append(name)  # with a single sample nothing is missing: an ordinary mutation
    rows = inp["rows"] + extra
    r.shuffle(rows)
    inp = dict(inp, rows=rows, expect_names=sorted(set(keep)))
    spec["inputs"] = inp
    return spec


def task(seed):
    try:
        return _task(seed)
    except runner.HarnessError as e:
        raise runner.HarnessError("run seed %d: %s" % (seed, e))


def _task(seed):
    spec = add_rows_the_loader_drops(widen(wp.spec_from_seed(seed, boundary=True), seed), seed)
    # keep a single run inside the budget: the cross product is sampled, not the product of all maxima
    n_mut_ = len(set(r_["mutation_id"] for r_ in spec["inputs"]["rows"]))
    if n_mut_ >= 16 and spec["options"]["proposal"] == "fully-adapted" and not spec.get("big"):
        # the fully adapted proposal scores 2^R placements for R top-level clones: with tens of mutations and a large
        # concentration a valid run takes hours (run seed 1231133425579934421: 40 mutations, alpha 50, was still running after
        # 780 s).  Slow is not what C19 is about; C08 checks that proposal on parents of up to 11 top-level clones.
        spec["options"]["proposal"] = "semi-adapted"
    while cost(spec) > 20000 and not spec.get("big"):
        o = spec["options"]
        if o["num_iters"] > 2:
            o["num_iters"] = max(2, o["num_iters"] // 3)
        elif o["num_particles"] > 3:
            o["num_particles"] = 3
        elif o["num_chains"] > 1:
            o["num_chains"] = 1
        elif o["grid_size"] > 15:
            o["grid_size"] = 15
        else:
            break
    problems, info = evaluate(spec)
    o = spec["options"]
    out = {"seed": seed, "problems": [], "opts": o, "n_mut": len(set(r["mutation_id"] for r in spec["inputs"]["rows"])),
           "clustered": spec["inputs"]["cluster_rows"] is not None, "via_cli": spec["via_cli"]}
    out.update(info)
    for key, detail in problems:
        smin = minimise(spec, key)
        p2, _ = evaluate(smin)
        d2 = [d for k, d in p2 if k == key]
        out["problems"].append((key, (d2[0] if d2 else detail), jsonable_spec(smin)))
    return out


def big_task(item):
    """Runs as large as real inputs (hundreds of mutations in the starting clone) with minimal sampler settings."""
    import random

    seed, n_mut = item
    r = random.Random(seed)
    spec = wp.spec_from_seed(seed, boundary=False, chains=1, finite_clock=False, clustered=False, n_mut=n_mut)
    spec["options"].update(num_iters=1, thin=1, num_particles=1, grid_size=11, burnin=1, subtree_update_prob=0.0, num_samples_data_point=0,
                           num_samples_prune_regraph=r.choice([0, 1]), proposal="bootstrap", num_chains=1, outlier_prob=r.choice([0.0, 0.01]),
                           concentration_update=r.random() < 0.5)
    spec["via_cli"] = False
    problems, info = evaluate(spec)
    return {"seed": seed, "n_mut": n_mut, "problems": [(k, d, jsonable_spec(spec)) for k, d in problems], "entries": info["entries"]}


def fft_task(item):
    """Runs on grids of 1000 points and more (the FFT convolution branch): always executed, not left to the time-boxed part."""
    import random

    seed, grid = item
    r = random.Random(seed)
    spec = wp.spec_from_seed(seed, boundary=False, chains=1, finite_clock=False, clustered=False, n_mut=r.choice([2, 3, 4]), n_samples=1)
    spec["options"].update(grid_size=grid, num_iters=r.choice([1, 2]), num_particles=2, num_chains=1, burnin=1)
    spec["via_cli"] = False
    problems, info = evaluate(spec)
    return {"seed": seed, "grid": grid, "problems": [(k, d, jsonable_spec(spec)) for k, d in problems], "entries": info["entries"]}


def run(ctx):
    wp.warm_up()
    grids = [1000, 1001, 1024, 1000, 1024, 1100] + ([1000, 1024, 2048, 1500] * 5 if ctx.tier != "quick" else [])
    for out in runner.pmap(fft_task, [(ctx.sub(("fft", i)), g_) for i, g_ in enumerate(grids)], timeout=1500):
        ctx.probe("run_on_fft_sized_grid")
        for key, detail, sp in out["problems"]:
            ctx.violation(dict(key, fft_grid=True), detail + " | grid of %d points" % out["grid"], {"spec": sp, "key": key, "seed": out["seed"]})
    sizes = [31, 32, 33, 63, 64, 65, 127, 128, 129, 130, 255, 256, 257, 258, 300] + ([511, 512, 513, 1000, 1025] if ctx.tier != "quick" else [])
    bres = runner.pmap(big_task, [(ctx.sub(("big", n_)), n_) for n_ in sizes], timeout=1500)
    for out in bres:
        ctx.probe("run_with_%d_or_more_mutations" % (100 if out["n_mut"] >= 100 else 30))
        for key, detail, sp in out["problems"]:
            ctx.violation(dict(key, large_input=True), detail + " | %d mutations, minimal sampler settings" % out["n_mut"], {"spec": sp, "key": key, "seed": out["seed"]})
    ctx.cov["large_input_runs"] = {"mutations": sizes, "all_completed": all(not o["problems"] for o in bres)}
    n = 1200 if ctx.tier == "quick" else 60000
    seeds = [ctx.sub(("run", i)) for i in range(n)]
    deadline = ctx.t0 + (95 if ctx.tier == "quick" else 1500)
    res = runner.pmap(task, seeds, timeout=900, deadline=deadline)
    done = [r for r in res if r is not None]
    sig = set()
    for out in done:
        o = out["opts"]
        sig.add((o["proposal"], o["num_particles"], o["resample_threshold"], o["outlier_prob"], o["subtree_update_prob"], o["thin"],
                 o["burnin"], o["num_iters"], o["concentration_update"], o["num_chains"], out["n_mut"], out["clustered"]))
        if out["n_mut"] == 1:
            ctx.probe("single_data_point")
        if o["num_particles"] == 1:
            ctx.probe("one_particle")
        if o["resample_threshold"] >= 1.0:
            ctx.probe("threshold_one")
        if o["outlier_prob"] >= 0.5:
            ctx.probe("outlier_prob_high")
        if out["via_cli"]:
            ctx.probe("entered_through_click_command")
        if o["num_chains"] > 1:
            ctx.probe("multi_chain")
        ctx.merge_counts("fault_kinds_fired", {"sched." + k: v for k, v in out["stats"].items()})
        for key, detail, smin in out["problems"]:
            nm = len(set(r_["mutation_id"] for r_ in smin["inputs"]["rows"]))
            ctx.violation(key, detail + " | minimised run: %d mutation(s), %d sample(s), options %r, max_time %r (found at run seed %d)" % (
                nm, len(smin["inputs"]["samples"]), smin["options"], smin.get("max_time"), out["seed"]), {"spec": smin, "key": key, "seed": out["seed"]})
    ctx.cov["evaluations"] = len(done)
    ctx.cov["distinct_nontrivial"] = len(sig)
    ctx.cov["runs_skipped_for_time"] = len(res) - len(done)
    ctx.cov["trace_entries_checked"] = sum(o["entries"] for o in done)
    ctx.cov["simulated_seconds_covered"] = round(sum(o["sim_time"] for o in done), 1)
    ctx.cov["simulated_clock_reads"] = sum(o["clock_reads"] for o in done)
    ctx.cov["rule"] = ("one evaluation = one simulated `phyclone run` (real load_data, run, chain driver, trace writer) on a generated input "
                       "table (1-8 mutations, 1-3 samples, clustered or not, identical / zero-depth rows) with options drawn boundary-biased "
                       "from what the CLI accepts; a quarter enter through the click command; clock and chain schedule simulated; "
                       "distinct = distinct (proposal, particles, threshold, outlier prob, subtree prob, thin, burn-in, iterations, "
                       "concentration update, chains, mutations, clustered) tuples")
    for out in done[:3]:
        ctx.sample({"seed": out["seed"], "options": out["opts"], "n_mut": out["n_mut"], "entries": out["entries"]})
    ctx.cov["components"] = {"real": ["phyclone.data.pyclone.load_data", "phyclone.run.run / run_phyclone_chain / _run_burnin / _run_main_sampler",
                                      "all samplers", "process_trace.create_main_run_output", "phyclone.cli.run (25% of runs)"],
                             "stand_in": ["Timer clock -> SimClock", "ProcessPoolExecutor/as_completed/get_context -> SimExecutor (in-process, pickled "
                                          "arguments, fresh caches per simulated worker)", "gzip file -> in-memory SimFS"]}
    ctx.assumptions += ["cost cap per run (iterations x particles x data x chains x grid) keeps single runs short; the cross product is sampled"]


def replay(ctx, obj):
    wp.warm_up()
    problems, info = evaluate(obj["spec"])
    for key, detail in problems:
        if key == obj["key"]:
            ctx.violation(key, detail, obj)
    ctx.cov["evaluations"] = 1

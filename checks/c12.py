"""C12  (trace summaries; see sim/summarycheck.py and DESIGN.md section 4)"""
from sim import summarycheck

LEVEL = "exploration"
RULES = {
    "C11": "one evaluation = one trace (35%% sampled by a simulated multi-chain run whose completion order the scheduler chose, the rest synthetic corner traces: repeated / relabelled copies of few trees, exact score ties, all-outlier and single-clone trees, 1-4 chains inserted in scheduler-chosen order) summarised by map (both modes) and topology-report (with archive, seeded top-trees) under up to 6 permutations of chain insertion order; outputs are parsed back and compared with the trace model (maximum, counts, pointers, ranking, archive members); distinct = distinct (kind, distinct trees, chains, entries)",
    "C12": "same traces; every (table, Newick) pair written by map, consensus and inside the topology archive is checked: each input mutation once per sample, clone ids are Newick nodes or -1, clusters not split, ccf / clonal prevalence constant per clone and sample, in range, -1 exactly for clone -1; every command must complete on every tree form; distinct as in C11",
    "C16": "same traces; consensus with both weight types and thresholds from [0.5,1]: the output's clade set must equal the set of clades whose support (fraction of entries, or normalised count*exp(max score) share over distinct topologies) strictly exceeds the threshold; uncovered data points carry clone -1; runs with a support within 1e-9 of the threshold are skipped; synthetic traces include nested majority clades whose parent is the exact union of its children, twice in one tree; distinct as in C11",
}


def run(ctx):
    quick = ctx.tier == "quick"
    summarycheck.run_summary_check(ctx, "C12", 400 if quick else 20000)
    ctx.cov["rule"] = RULES["C12"]


def replay(ctx, obj):
    summarycheck.replay_summary(ctx, obj)

"""C08  SMC proposals are normalised, faithfully sampled, complete and correctly weighted.

Parent states = all particle genealogies obtained by closing the empty particle under the reference
model's placements (depth 3, thorough 4), realised through the real kernel.create_particle.  For every
parent and every possible next data point: (1) sum exp(log_p) over the model's placements = 1, (2) complete
traversal of sample()'s outcome tree gives each tree exactly exp(log_p), (3) sampled support = placements,
(4) incremental weights and proposal probabilities telescope to the target, also in the swarm returned by
the real SMCSampler when resampling never triggers."""
import math
import random

import numpy as np

from sim import bridge, models, runner
from sim.models import Forest
from sim.rng import HarnessUnsupported, ExploreBudget, SimGenerator, explore

LEVEL = "exploration"
TOL = 1e-9
PROPOSALS = ["bootstrap", "semi-adapted", "fully-adapted"]


def parent_class(f):
    if f is None:
        return "no_parent"
    if not f.own and not f.outliers:
        return "no_parent"
    if not f.own:
        return "outliers_only"
    return "clones+outliers" if f.outliers else "clones"


def realise(parent_tree, parent_forest, placed, dp, data, r):
    """Build the candidate tree for `placed` the way ConditionalSMCSampler._get_constrained_path does,
    children of a new clone in a seeded order."""
    from phyclone.tree import Tree

    t = parent_tree.copy() if parent_tree is not None else Tree(data[0].grid_size)
    if dp in placed.outliers:
        t.add_data_point_to_outliers(data[dp])
        return t
    tgt = [i for i, o in enumerate(placed.own) if dp in o][0]
    if len(placed.own) == (len(parent_forest.own) if parent_forest else 0):
        # existing clone: find its name through a member data point
        other = next(iter(placed.own[tgt] - {dp}))
        t.add_data_point_to_node(data[dp], parent_tree.labels[other])
        return t
    kids = [i for i, p in enumerate(placed.parent) if p == tgt]
    names = [parent_tree.labels[next(iter(placed.own[k]))] for k in kids]
    r.shuffle(names)
    node = t.create_root_node(names)
    t.add_data_point_to_node(data[dp], node)
    return t


def run_config(cfg):
    from phyclone.smc.kernels import BootstrapKernel, FullyAdaptedKernel, SemiAdaptedKernel
    from phyclone.smc.samplers import SMCSampler
    from phyclone.smc.swarm import TreeHolder
    from phyclone.smc.utils import RootPermutationDistribution
    from phyclone.tree import FSCRPDistribution, TreeJointDistribution

    bridge.clear_caches()
    r = random.Random(cfg["data_seed"])
    depth = cfg["depth"]
    n = depth
    n_deep = max(cfg.get("deep_len", 0), cfg.get("wide_len", 0))
    opp = cfg["opp"]
    outliers_on = opp > 0
    data = bridge.make_data(r, max(n, n_deep), samples=cfg["samples"], grid=cfg["grid"], style=cfg["style"],
                            outlier_prob=(cfg["outlier_prob"] if outliers_on else 0.0))
    tree_dist = TreeJointDistribution(FSCRPDistribution(cfg["alpha"]))
    perm = RootPermutationDistribution() if cfg["perm"] else None
    kcls = {"bootstrap": BootstrapKernel, "semi-adapted": SemiAdaptedKernel, "fully-adapted": FullyAdaptedKernel}[cfg["proposal"]]
    holder = {"g": None}

    class RngProxy(object):
        """The kernel keeps one rng reference; proposals copy it at construction.  Route to the current device."""

        def __getattr__(self, name):
            return getattr(holder["g"], name)

    kernel = kcls(tree_dist, RngProxy(), outlier_proposal_prob=opp, perm_dist=perm)
    base = {"proposal": cfg["proposal"], "outlier_proposals": outliers_on, "perm_dist": bool(cfg["perm"])}
    problems = []
    stats = {"parents": 0, "pairs": 0, "leaves": 0, "genealogies": 0, "classes": {}, "swarm_particles": 0}
    seen_pairs = set()

    def fresh_target(forest, form):
        t = bridge.build_tree(forest, data)
        lp, lp1 = tree_dist.log_p(t), tree_dist.log_p_one(t)
        pdf = RootPermutationDistribution.log_pdf(t) if cfg["perm"] else 0.0
        return float(lp), float(lp1), float(pdf)

    def add(key, detail, rep):
        problems.append((dict(base, **key), detail, rep))

    def pair_checks(parent_particle, parent_tree, parent_forest, dp, path):
        """Checks 1-3 for one (parent state, next data point); returns {canonical placement: (tree, holder, forest, log_q)}."""
        pc = parent_class(parent_forest)
        pf = parent_forest if parent_forest is not None else models.EMPTY
        cands = models.placements(pf, dp, outliers_on)
        dist = kernel.get_proposal_distribution(data[dp], parent_particle, parent_tree)
        stats["pairs"] += 1
        if parent_forest is not None:
            seen_pairs.add((models.canon(parent_forest), dp))
            stats["max_top_level_clones"] = max(stats.get("max_top_level_clones", 0), sum(1 for p_ in pf.parent if p_ == -1))
        rep = {"cfg": cfg, "path": path, "next": dp}
        lps = {}
        trees = {}
        ok = True
        for cf in cands:
            cn = models.canon(cf)
            t = realise(parent_tree, parent_forest, cf, dp, data, r)
            assert bridge.canon_tree(t) == cn
            try:
                th = TreeHolder(t, tree_dist, perm)
                lp = float(dist.log_p(th))
                if cfg["proposal"] == "bootstrap":
                    lp2 = float(dist.log_p(t))
                    if abs(lp2 - lp) > TOL:
                        add({"sub": "log_p_tree_vs_holder", "parent": pc}, "log_p(Tree)=%r log_p(TreeHolder)=%r" % (lp2, lp), rep)
            except (HarnessUnsupported,):
                raise
            except Exception as e:
                add({"sub": "log_p_exception", "parent": pc, "exc": type(e).__name__},
                    "log_p raised %r for placement %s on parent %s" % (e, models.canon_str(cn), pc), rep)
                ok = False
                continue
            if not math.isfinite(lp):
                add({"sub": "log_p_not_finite", "parent": pc}, "log_p=%r for placement %s" % (lp, models.canon_str(cn)), rep)
                ok = False
            lps[cn] = lp
            trees[cn] = (t, th, cf, lp)
        if ok:
            tot = math.fsum(math.exp(v) for v in lps.values())
            if abs(tot - 1.0) > TOL:
                add({"sub": "normalisation", "parent": pc}, "sum over %d placements of exp(log_p) = %.12g (parent %s, next dp %d)" % (
                    len(lps), tot, models.canon_str(models.canon(pf)), dp), rep)
        mass = {}

        def leaf(g):
            holder["g"] = g
            res = dist.sample()
            tr = res if hasattr(res, "get_parent") else res.tree
            return bridge.canon_tree(tr)

        try:
            for res, p, script in explore(leaf, max_leaves=400000):
                mass[res] = mass.get(res, 0.0) + p
                stats["leaves"] += 1
        except (HarnessUnsupported, ExploreBudget):
            raise
        except Exception as e:
            add({"sub": "sample_exception", "parent": pc, "exc": type(e).__name__}, "sample() raised %r" % (e,), rep)
            mass = None
        finally:
            holder["g"] = None
        if mass is not None:
            extra = set(mass) - set(lps)
            missing = set(lps) - set(mass)
            if extra:
                add({"sub": "support_extra", "parent": pc}, "sample() returns %s which is not a placement of dp %d" % (
                    models.canon_str(sorted(extra, key=repr)[0]), dp), rep)
            if missing:
                add({"sub": "support_missing", "parent": pc}, "placement %s is never sampled" % models.canon_str(sorted(missing, key=repr)[0]), rep)
            for cn, m in mass.items():
                if cn in lps and abs(m - math.exp(lps[cn])) > TOL:
                    add({"sub": "faithful", "parent": pc}, "tree %s sampled with probability %.12g, log_p reports %.12g" % (
                        models.canon_str(cn), m, math.exp(lps[cn])), rep)
                    break
        return trees, rep, pc

    def weight_step(parent_particle, cn, t, th, cf, lq, sum_wq, last, n_total, rep, pc):
        """Weight identities for one placement; returns (particle, new running sum)."""
        particle = kernel.create_particle(lq, parent_particle, th)
        lw = float(particle.log_w)
        s_ = sum_wq + lw + lq
        lp_f, lp1_f, pdf_f = fresh_target(cf, None)
        if not (abs(s_ - (lp_f + pdf_f)) <= 1e-8 * max(1.0, abs(s_))):
            add({"sub": "weights_telescope", "parent": pc},
                "sum of (log_w + log_q) along the genealogy = %.12g, target log_p + log_pdf = %.12g for %s" % (
                    s_, lp_f + pdf_f, models.canon_str(cn)), dict(rep, placed=models.canon_str(cn)))
        if last:
            stats["genealogies"] += 1
            smp = SMCSampler([data[k] for k in range(n_total)], kernel, 2, resample_threshold=0.0)
            smp.iteration = n_total - 1
            lw_last = float(smp._get_log_w(particle))
            s2 = sum_wq + lw_last + lq
            if not (abs(s2 - (lp1_f + pdf_f)) <= 1e-8 * max(1.0, abs(s2))):
                add({"sub": "weights_final_target", "parent": pc},
                    "with the last-step correction the weights x proposals give %.12g, target log_p_one + log_pdf = %.12g for %s" % (
                        s2, lp1_f + pdf_f, models.canon_str(cn)), dict(rep, placed=models.canon_str(cn)))
        return particle, s_

    def visit(parent_particle, parent_tree, parent_forest, todo, sum_wq, path):
        stats["parents"] += 1
        pc0 = parent_class(parent_forest)
        stats["classes"][pc0] = stats["classes"].get(pc0, 0) + 1
        for pos, dp in enumerate(todo):
            trees, rep, pc = pair_checks(parent_particle, parent_tree, parent_forest, dp, path)
            if pos == 0:
                rest = todo[1:]
                for cn, (t, th, cf, lq) in trees.items():
                    if not math.isfinite(lq):
                        continue
                    particle, s_ = weight_step(parent_particle, cn, t, th, cf, lq, sum_wq, not rest, n, rep, pc)
                    if rest:
                        visit(particle, t, cf, rest, s_, path + [models.canon_str(cn)])

    def deep_path(rr, length, wide=False):
        """One seeded genealogy of `length` placements, biased towards many top-level clones and several outliers, with all
        per-pair checks at every step (reaches parent states the systematic closure is too shallow for)."""
        pp, pt, pf, s_, path = None, None, None, 0.0, []
        for dp in range(length):
            stats["parents"] += 1
            trees, rep, pc = pair_checks(pp, pt, pf, dp, path)
            cns = [c for c in trees if math.isfinite(trees[c][3])]
            if not cns:
                return
            cns.sort(key=repr)
            u = rr.random()
            flat = [c for c in cns if len(c[0]) == (len(pf.own) if pf else 0) + 1 and all(
                (own == cl) for own, cl in c[0] if dp in own)]  # new top-level clone without children
            outl = [c for c in cns if dp in c[1]]
            if (u < 0.45 or (wide and u < 0.97)) and flat:
                cn = flat[0]
            elif u < 0.6 and outl:
                cn = outl[0]
            else:
                cn = rr.choice(cns)
            t, th, cf, lq = trees[cn]
            pp, s_ = weight_step(pp, cn, t, th, cf, lq, s_, dp == length - 1, length, rep, pc)
            pt, pf = t, cf
            path = path + [models.canon_str(cn)]

    visit(None, None, None, list(range(n)), 0.0, [])
    rr = random.Random(cfg["data_seed"] ^ 0x77)
    for _ in range(cfg.get("deep_paths", 0)):
        deep_path(rr, cfg.get("deep_len", 0))
    if cfg.get("wide_len", 0):
        # one genealogy that keeps opening top-level clones: parents with 9, 10, ... top-level clones (2^9+ new-clone placements)
        deep_path(rr, cfg["wide_len"], wide=True)

    # the standard sampler's swarm, no resampling: weights must equal target / prod q up to the common constant
    for rep_i in range(cfg["swarm_runs"]):
        g = SimGenerator(mode="choose", tail_seed=runner.hash64(cfg["data_seed"], rep_i))
        holder["g"] = g
        N = cfg["swarm_N"]
        order = list(range(n))
        r.shuffle(order)
        smp = SMCSampler([data[k] for k in order], kernel, N, resample_threshold=0.0)
        try:
            swarm = smp.sample()
        except (HarnessUnsupported,):
            raise
        except Exception as e:
            add({"sub": "smc_exception", "exc": type(e).__name__}, "SMCSampler.sample raised %r" % (e,), {"cfg": cfg, "swarm_rep": rep_i})
            continue
        finally:
            holder["g"] = None
        uw = swarm.unnormalized_log_weights
        diffs = []
        for w, p in zip(uw, swarm.particles):
            stats["swarm_particles"] += 1
            chain = []
            q = p
            while q is not None:
                chain.append(q)
                q = q.parent_particle
            chain.reverse()
            sq = 0.0
            par = None
            for k, node in enumerate(chain):
                d = kernel.get_proposal_distribution(data[order[k]], par, par.tree if par is not None else None)
                sq += float(d.log_p(TreeHolder(node.tree, tree_dist, perm)))
                par = node
            f = bridge.to_forest(p.tree)
            lp_f, lp1_f, pdf_f = fresh_target(f, None)
            want = lp1_f + pdf_f - sq
            diffs.append((float(w) - want, models.canon_str(models.canon(f)), float(w), want))
        # each generation's weights are normalised by a constant common to the swarm: differences must agree
        ref = diffs[0][0]
        for dlt, cs, w, want in diffs:
            if not (abs(dlt - ref) <= 1e-8 * max(1.0, abs(want))):
                add({"sub": "swarm_weight"}, "SMCSampler swarm: log weight minus log(target/proposals) is %.12g for %s but %.12g for %s" % (
                    dlt, cs, ref, diffs[0][1]), {"cfg": cfg, "swarm_rep": rep_i})
                break
    stats["distinct_pairs"] = len(seen_pairs)
    return {"stats": stats, "problems": problems}


def configs(ctx):
    quick = ctx.tier == "quick"
    r = random.Random(ctx.sub("cfg"))
    out = []
    depth = 4 if quick else 5
    for prop in PROPOSALS:
        for opp in (0.0, 0.1, 0.5):
            for perm in (True, False):
                out.append(dict(proposal=prop, opp=opp, perm=perm, alpha=1.0, data_seed=r.randrange(1 << 30), depth=depth, samples=1,
                                grid=4, style="gauss", outlier_prob=0.05, swarm_runs=3, swarm_N=4, deep_paths=3 if quick else 12, deep_len=7 if quick else 8,
                                wide_len=(11 if quick else 12)))
    for i in range(12 if quick else 800):
        out.append(dict(proposal=r.choice(PROPOSALS), opp=r.choice([0.0, 0.1, 0.5, round(r.uniform(0.01, 0.95), 3)]), perm=r.random() < 0.6,
                        alpha=round(math.exp(r.uniform(math.log(0.05), math.log(20))), 4), data_seed=r.randrange(1 << 30),
                        depth=r.choice([3, 4, 4] if quick else [4, 4, 5]), samples=r.choice([1, 2]), grid=r.choice([3, 5, 7]),
                        style=r.choice(["gauss", "peaked", "flat"]), outlier_prob=r.choice([0.001, 0.05, 0.5]), swarm_runs=2,
                        swarm_N=r.choice([1, 2, 5]), deep_paths=2 if quick else 6, deep_len=r.choice([6, 7, 8])))
    return out


def run(ctx):
    bridge.warm_up()
    cfgs = configs(ctx)
    res = runner.pmap(run_config, cfgs, timeout=1500)
    tot = {"parents": 0, "pairs": 0, "leaves": 0, "genealogies": 0, "swarm_particles": 0}
    max_roots = 0
    distinct = 0
    classes = {}
    for cfg, out in zip(cfgs, res):
        for k in tot:
            tot[k] += out["stats"][k]
        distinct += out["stats"]["distinct_pairs"]
        max_roots = max(max_roots, out["stats"].get("max_top_level_clones", 0))
        for k, v in out["stats"]["classes"].items():
            classes[k] = classes.get(k, 0) + v
        seen = set()
        for key, detail, rep in out["problems"]:
            ks = repr(sorted(key.items()))
            if ks in seen:
                continue
            seen.add(ks)
            ctx.violation(key, detail, {"cfg": cfg, "key": key})
    ctx.cov["evaluations"] = tot["pairs"]
    ctx.cov["distinct_nontrivial"] = distinct
    ctx.cov["rule"] = ("per configuration (proposal, outlier proposal probability, permutation distribution present/absent, alpha, data) all "
                       "genealogies to depth %s closed under the model's placements; one evaluation = one (parent state, next data point) pair "
                       "whose proposal was checked for normalisation, faithful sampling (complete outcome tree of sample()), completeness and "
                       "weights; plus seeded deep genealogies of 6-8 placements biased towards many top-level clones and outliers (parents with up to 6 "
                       "top-level clones) and genealogies of 11 placements that keep opening top-level clones (parents with 9-10 top-level clones, 500-1000 new-clone placements) with the same checks at every step; distinct_nontrivial = distinct (canonical non-empty parent, next "
                       "data point) pairs per configuration, summed" % (
                           "4" if ctx.tier == "quick" else "5"))
    ctx.cov["configurations"] = len(cfgs)
    ctx.cov["parent_states"] = tot["parents"]
    ctx.cov["max_top_level_clones_in_a_parent"] = max_roots
    ctx.probe("parent_with_four_or_more_top_level_clones", int(max_roots >= 4))
    ctx.probe("parent_with_nine_or_more_top_level_clones", int(max_roots >= 9))
    ctx.cov["complete_genealogies_weight_checked"] = tot["genealogies"]
    ctx.cov["leaves_visited"] = tot["leaves"]
    ctx.cov["swarm_particles_checked"] = tot["swarm_particles"]
    ctx.cov["exhaustive_per_configuration"] = True
    ctx.cov["parent_state_classes"] = classes
    for k, v in classes.items():
        ctx.probe("parent_" + k, v)
    ctx.fault("rng.outcome", tot["leaves"])
    for c in cfgs[:3]:
        ctx.sample({"config": c})
    ctx.cov["components"] = {"real": ["phyclone.smc.kernels.* proposal distributions (sample, log_p)", "Kernel.create_particle",
                                      "AbstractSMCSampler._get_log_w", "SMCSampler.sample (threshold 0)", "TreeHolder / Particle", "Tree"],
                             "stand_in": ["numpy Generator -> sim.rng.SimGenerator"]}
    ctx.assumptions += ["candidate trees handed to log_p are built the way ConditionalSMCSampler._get_constrained_path builds them (children in seeded order)",
                        "targets are recomputed on freshly built trees, not read from particle attributes"]


def replay(ctx, obj):
    bridge.warm_up()
    out = run_config(obj["cfg"])
    for key, detail, rep in out["problems"]:
        if key == obj["key"]:
            ctx.violation(key, detail, obj)
            break
    ctx.cov["evaluations"] = 1

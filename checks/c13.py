"""C13  Concentration update is an exact Gibbs step (Escobar-West): the parameters of the three draws, observed at the
generator seam under scripted outcomes, and the K, n, alpha flow through the run loop."""
import math
import random

from sim import models, runner, world_pipeline as wp
from sim.rng import SimGenerator

LEVEL = "exploration"


def rel(a, b):
    return abs(a - b) <= 1e-12 * max(1.0, abs(a), abs(b))


def device_task(seed):
    from phyclone.mcmc.concentration import GammaPriorConcentrationSampler
    from scipy import stats

    r = random.Random(seed)
    problems = []
    n_tuples = 0
    sig = set()
    holder = {"g": None}

    class RngProxy(object):
        """One sampler object serves many consecutive updates (as in a run); each call sees its own scripted generator."""

        def __getattr__(self, name):
            return getattr(holder["g"], name)

    samplers = {}
    ab_pool = [(0.01, 0.01)] + [(math.exp(r.uniform(math.log(1e-3), math.log(1e3))), math.exp(r.uniform(math.log(1e-3), math.log(1e3)))) for _ in range(6)]
    for _ in range(250):
        a, b = r.choice(ab_pool)
        alpha = math.exp(r.uniform(math.log(1e-10), math.log(1e3)))
        n = r.choice([1, 2, 3, 10, 100, 10000, r.randint(1, 10000)])
        K = r.choice([1, n, r.randint(1, n)])
        q = r.choice([0.001, 0.1, 0.5, 0.9, 0.999])
        eta = r.choice([1e-300, 1e-12, 0.5, 1 - 1e-12, float(stats.beta.ppf(q, alpha + 1, n))])
        if not (0.0 < eta < 1.0):
            eta = 0.5
        gq = r.choice([0.0, 1e-300, None, None, None])
        for j in (0, 1):
            shape = a + K - 1 + j
            gval = gq if gq is not None else float(stats.gamma.ppf(q, shape)) if shape > 0 else 1.0
            if not math.isfinite(gval):
                gval = 1.0
            vals = {"beta": eta, "standard_gamma": gval, "gamma": gval}
            g = SimGenerator(mode="choose", script=[j], continuous=lambda kind, params: vals[kind])
            if (a, b) not in samplers or not hasattr(samplers[(a, b)], "_rng"):
                samplers[(a, b)] = GammaPriorConcentrationSampler(a, b, rng=g)
            s = samplers[(a, b)]
            if hasattr(s, "_rng"):
                s._rng = g  # the same sampler object serves consecutive updates, each under its own scripted generator
            try:
                new = float(s.sample(alpha, K, n))
            except Exception as e:
                problems.append(({"sub": "exception", "exc": type(e).__name__}, "sample(%r,%r,%r) with a=%r b=%r eta=%r raised %r" % (alpha, K, n, a, b, eta, e),
                                 dict(a=a, b=b, alpha=alpha, K=K, n=n, eta=eta, j=j, g=gval)))
                continue
            n_tuples += 1
            sig.add((round(math.log10(a)), round(math.log10(b)), round(math.log10(alpha)), K == 1, K == n, j, gq))
            ew = models.escobar_west(a, b, alpha, K, n, eta)
            rq = g.requests
            rep = dict(a=a, b=b, alpha=alpha, K=K, n=n, eta=eta, j=j, g=gval)
            kinds = [x[0] for x in rq]
            if kinds != ["beta", "binomial", "standard_gamma"] and kinds != ["beta", "binomial", "gamma"]:
                problems.append(({"sub": "draw_sequence"}, "draws requested: %r" % (kinds,), rep))
                continue
            if not (rel(rq[0][1], ew["beta"][0]) and rel(rq[0][2], ew["beta"][1])):
                problems.append(({"sub": "beta_params"}, "auxiliary drawn from Beta(%r, %r), statement says Beta(alpha+1=%r, n=%r)" % (
                    rq[0][1], rq[0][2], ew["beta"][0], ew["beta"][1]), rep))
            if rq[1][1] != 1 or not rel(rq[1][2], ew["pi"]):
                problems.append(({"sub": "mixture_weight"}, "mixing probability %r, Escobar-West gives %r" % (rq[1][2], ew["pi"]), rep))
            want_shape = ew["shape1"] if j == 1 else ew["shape0"]
            if not rel(rq[2][1], want_shape):
                problems.append(({"sub": "gamma_shape"}, "gamma shape %r for component %d, expected %r" % (rq[2][1], j, want_shape), rep))
            scale_in_req = rq[2][2] if rq[2][0] == "gamma" else 1.0
            want = gval * scale_in_req * (1.0 if rq[2][0] == "gamma" else 1.0 / ew["rate"])
            want = max(want, 1e-10)
            if not (abs(new - want) <= 1e-12 * max(abs(want), 1e-300) + 0.0 or rel(new, want)):
                problems.append(({"sub": "gamma_rate"}, "returned %r, expected standard-gamma value %r / rate %r = %r (floor 1e-10)" % (
                    new, gval, ew["rate"], want), rep))
            if not (new > 0 and math.isfinite(new)):
                problems.append(({"sub": "not_positive"}, "returned %r" % new, rep))
    return {"n": n_tuples, "problems": problems[:3], "sig": sig}


def oracle_selfcheck():
    """Numerical quadrature on the STATEMENT's distributions: they leave p(alpha | K, n) invariant.  A check of the oracle."""
    import numpy as np
    from scipy import integrate, special, stats

    a, b, K, n = 2.0, 1.5, 3, 7

    def logpost(x):
        return (a + K - 1) * np.log(x) - b * x + special.gammaln(x) - special.gammaln(x + n)

    Z, _ = integrate.quad(lambda x: math.exp(logpost(x)), 0, np.inf, limit=200)

    def post(x):
        return math.exp(logpost(x)) / Z

    def trans(x_new, x_old):
        def integrand(eta):
            ew = models.escobar_west(a, b, x_old, K, n, eta)
            dens = ew["pi"] * stats.gamma.pdf(x_new, ew["shape1"], scale=1 / ew["rate"]) + (1 - ew["pi"]) * stats.gamma.pdf(
                x_new, ew["shape0"], scale=1 / ew["rate"])
            return stats.beta.pdf(eta, x_old + 1, n) * dens
        v, _ = integrate.quad(integrand, 0, 1, limit=200)
        return v

    worst = 0.0
    for x_new in (0.3, 1.0, 2.5):
        v, _ = integrate.quad(lambda xo: post(xo) * trans(x_new, xo), 0, 60, limit=200)
        worst = max(worst, abs(v - post(x_new)) / post(x_new))
    return worst


def loop_task(seed):
    big = seed % 6 == 0  # a sixth of the runs: tens of mutations (two-digit clone counts), five samples
    spec = wp.spec_from_seed(seed, boundary=False, n_mut=(12 + seed % 11) if big else None, n_samples=5 if big else None)
    spec["options"]["concentration_update"] = True
    spec["options"]["outlier_prob"] = random.Random(seed).choice([0.0, 0.01, 0.3, 0.5])
    h = wp.run_pipeline(spec)
    problems = []
    for c in h["conc_calls"]:
        if c["args"] is None:
            problems.append(({"sub": "loop_no_sample"}, "update_concentration_value did not call the sampler"))
            break
        old, K, n, new, a, b = c["args"]
        if K != c["K"] or n != c["n"]:
            problems.append(({"sub": "loop_K_n"}, "sampler received K=%d n=%d, current tree has %d clones holding %d non-outlier data points" % (K, n, c["K"], c["n"])))
            break
        if old != c["before"]:
            problems.append(({"sub": "loop_old_value"}, "sampler received old value %r, prior held %r" % (old, c["before"])))
            break
        if c["after"] != new:
            problems.append(({"sub": "loop_new_value"}, "prior.alpha after the update is %r, sampler returned %r" % (c["after"], new)))
            break
        if not (abs(c["log_alpha"] - math.log(c["after"])) <= 1e-12 * max(1.0, abs(c["log_alpha"]))):
            problems.append(({"sub": "loop_log_alpha"}, "prior.log_alpha=%r but log(alpha)=%r" % (c["log_alpha"], math.log(c["after"]))))
            break
        if (a, b) != (0.01, 0.01):
            problems.append(({"sub": "loop_prior_params"}, "run loop uses Gamma(%r, %r)" % (a, b)))
            break
    # every recorded alpha is the value in force when the entry was written
    if h["results"] is not None and not problems:
        for ch, res in h["results"].items():
            tr = res["trace"]
            if tr and tr[0]["alpha"] != spec["options"]["concentration_value"]:
                problems.append(({"sub": "loop_initial_alpha"}, "post-burn-in entry records alpha=%r, initial value was %r" % (tr[0]["alpha"], spec["options"]["concentration_value"])))
    n_out = sum(1 for c in h["conc_calls"] if c["K"] == 0)
    return {"seed": seed, "calls": len(h["conc_calls"]), "problems": problems[:1], "exc": h["exception"], "k0": n_out,
            "with_outliers": sum(1 for c in h["conc_calls"] if c["n"] < len(set(r["mutation_id"] for r in spec["inputs"]["rows"])))}


def run(ctx):
    wp.warm_up()
    quick = ctx.tier == "quick"
    w = oracle_selfcheck()
    ctx.cov["oracle_selfcheck_relative_error"] = w
    if w > 1e-5:
        raise runner.HarnessError("the reference Escobar-West distributions do not leave p(alpha|K,n) invariant (rel err %g): oracle is wrong" % w)
    seeds = [ctx.sub(("dev", i)) for i in range(48 if quick else 3000)]
    res = runner.pmap(device_task, seeds)
    tot = 0
    sig = set()
    for out in res:
        tot += out["n"]
        sig |= out["sig"]
        for key, detail, rep in out["problems"]:
            ctx.violation(key, detail, {"world": "device", "case": rep, "key": key})
    lseeds = [ctx.sub(("loop", i)) for i in range(160 if quick else 8000)]
    lres = runner.pmap(loop_task, lseeds)
    calls = 0
    for out in lres:
        calls += out["calls"]
        if out["k0"]:
            ctx.probe("update_with_no_clones", out["k0"])
        if out["with_outliers"]:
            ctx.probe("update_with_outliers_excluded_from_n", out["with_outliers"])
        for key, detail in out["problems"]:
            ctx.violation(key, detail + " | run seed %d" % out["seed"], {"world": "loop", "seed": out["seed"], "key": key})
    n_exc = sum(1 for o in lres if o["exc"])
    if n_exc > 0.25 * len(lres):
        ctx.cannot_judge("%d of %d simulated runs raised; the run-loop half cannot be judged (see C19)" % (n_exc, len(lres)))
    ctx.cov["evaluations"] = tot + len(lres)
    ctx.cov["distinct_nontrivial"] = len(sig)
    ctx.cov["device_level_tuples"] = tot
    ctx.cov["run_loop_runs"] = len(lres)
    ctx.cov["run_loop_update_calls_checked"] = calls
    ctx.fault("rng.outcome", tot)
    ctx.cov["rule"] = ("device level: seeded (a, b, alpha, K, n) with a,b in [1e-3,1e3] or the run command's 0.01, alpha in [1e-10,1e3], 1<=K<=n<=10000; "
                       "the simulated generator returns scripted eta (quantiles and 1e-300 / 1e-12 / 1-1e-12), both Bernoulli outcomes and scripted "
                       "gamma values (quantiles, 0, 1e-300) and records the parameters scipy forwards; distinct = distinct (order of magnitude of "
                       "a, b, alpha; K=1; K=n; component; gamma script) classes.  Run-loop level: simulated runs with concentration update on; "
                       "K, n, old and new value compared with the current tree at every call")
    ctx.sample({"device_case": "a=0.01 b=0.01 alpha=1.5 K=3 n=7 eta=0.3 component=1 -> Beta(2.5,7), Bernoulli(0.1913), standard_gamma(3.01)"})
    ctx.cov["components"] = {"real": ["GammaPriorConcentrationSampler.sample", "scipy.stats beta/bernoulli/gamma rvs plumbing",
                                      "run.update_concentration_value", "FSCRPDistribution.alpha setter", "run loop"],
                             "stand_in": ["numpy Generator -> SimGenerator (scripted continuous draws, parameters recorded)", "clock, executor, trace file (run-loop level)"]}
    ctx.assumptions += ["the invariance of the statement's three distributions is verified once by quadrature (oracle self-check), the code is then compared with those distributions' parameters"]


def replay(ctx, obj):
    if obj["world"] == "loop":
        wp.warm_up()
        out = loop_task(obj["seed"])
        for key, detail in out["problems"]:
            if key == obj["key"]:
                ctx.violation(key, detail, obj)
    else:
        from phyclone.mcmc.concentration import GammaPriorConcentrationSampler

        c = obj["case"]
        vals = {"beta": c["eta"], "standard_gamma": c["g"], "gamma": c["g"]}
        g = SimGenerator(mode="choose", script=[c["j"]], continuous=lambda kind, params: vals[kind])
        new = float(GammaPriorConcentrationSampler(c["a"], c["b"], rng=g).sample(c["alpha"], c["K"], c["n"]))
        ew = models.escobar_west(c["a"], c["b"], c["alpha"], c["K"], c["n"], c["eta"])
        rq = g.requests
        sub = obj["key"]["sub"]
        bad = {"beta_params": not (rel(rq[0][1], ew["beta"][0]) and rel(rq[0][2], ew["beta"][1])),
               "mixture_weight": not rel(rq[1][2], ew["pi"]),
               "gamma_shape": not rel(rq[2][1], ew["shape1"] if c["j"] else ew["shape0"]),
               "gamma_rate": not rel(new, max(c["g"] / ew["rate"], 1e-10)),
               "not_positive": not (new > 0)}.get(sub, True)
        if bad:
            ctx.violation(obj["key"], "replayed: requests %r returned %r" % (rq, new), obj)
    ctx.cov["evaluations"] = 1

"""C09  Data orders are drawn uniformly from those compatible with the tree.

Outcome-tree traversal of RootPermutationDistribution.sample on real Trees, compared with the
reference model's enumeration of linear extensions; log_pdf against -log(count)."""
import math
import random

from sim import bridge, models, runner
from sim.models import Forest
from sim.rng import explore

LEVEL = "exploration"


def forest_json(f):
    return {"own": [sorted(o) for o in f.own], "parent": list(f.parent), "outliers": sorted(f.outliers)}


def forest_unjson(j):
    return Forest(tuple(frozenset(o) for o in j["own"]), tuple(j["parent"]), frozenset(j["outliers"]))


def remove_point(f, d):
    own = [set(o) for o in f.own]
    par = list(f.parent)
    out = set(f.outliers)
    if d in out:
        out.discard(d)
    else:
        for i, o in enumerate(own):
            if d in o:
                o.discard(d)
                if not o:
                    for j in range(len(par)):
                        if par[j] == i:
                            par[j] = par[i]
                    del own[i]
                    del par[i]
                    par = [p - 1 if p > i else p for p in par]
                break
    return Forest(tuple(frozenset(o) for o in own), tuple(par), frozenset(out))


def check_forest(item):
    """Returns dict(stats, problems=[(key, detail)])"""
    fj, build_seed = item
    f = forest_unjson(fj)
    from phyclone.smc.utils import RootPermutationDistribution

    pts = sorted(set().union(*f.own) | set(f.outliers)) if (f.own or f.outliers) else []
    r = random.Random(build_seed)
    data = bridge.make_data(r, (max(pts) + 1) if pts else 0, samples=1, grid=3, style="flat")
    order = list(range(len(f.own)))
    r.shuffle(order)
    tree = bridge.build_tree(f, data, order=order)
    assert bridge.canon_tree(tree) == models.canon(f)
    dist = {}
    leaves = 0
    problems = []
    has_out = len(f.outliers) > 0
    try:
        for res, p, script in explore(lambda g: tuple(int(d.idx) for d in RootPermutationDistribution.sample(tree, g)),
                                      max_leaves=200000):
            dist[res] = dist.get(res, 0.0) + p
            leaves += 1
    except Exception as e:  # the code under test raised
        from sim.rng import HarnessUnsupported, ExploreBudget
        if isinstance(e, ExploreBudget):
            # the outcome tree of this forest is larger than the budget (on the unchanged tree it never is): not judged
            return {"leaves": leaves, "orders": 0, "problems": [], "n": len(pts), "nout": len(f.outliers), "budget": True}
        if isinstance(e, HarnessUnsupported):
            raise
        problems.append(({"sub": "exception", "has_outliers": has_out, "exc": type(e).__name__}, repr(e)))
        return {"leaves": leaves, "orders": 0, "problems": problems, "n": len(pts), "nout": len(f.outliers)}
    total = math.fsum(dist.values())
    if abs(total - 1.0) > 1e-9:
        raise runner.HarnessError("leaf probabilities sum to %r" % total)
    if len(pts) <= 7:
        exts = set(models.linear_extensions(f))
        count = len(exts)
        assert count == models.count_linear_extensions(f), "reference models disagree"
        produced = set(dist)
        bad = [o for o in produced if o not in exts]
        if bad:
            problems.append(({"sub": "constraint", "has_outliers": has_out}, "order %s violates the ancestor constraint" % (bad[0],)))
        missing = exts - produced
        if missing:
            problems.append(({"sub": "complete", "has_outliers": has_out}, "order %s is never produced" % (sorted(missing)[0],)))
    else:
        count = models.count_linear_extensions(f)
        if len(dist) != count:
            problems.append(({"sub": "complete", "has_outliers": has_out}, "%d distinct orders produced, %d exist" % (len(dist), count)))
    worst = max(abs(p * count - 1.0) for p in dist.values())
    if worst > 1e-9:
        o = max(dist, key=lambda k: abs(dist[k] * count - 1.0))
        problems.append(({"sub": "uniform", "has_outliers": has_out}, "order %s has probability %.12g, uniform is %.12g" % (o, dist[o], 1.0 / count)))
    if leaves != len(dist):
        problems.append(({"sub": "harness_assumption_paths_are_orders", "has_outliers": has_out}, "%d complete paths but %d distinct orders" % (leaves, len(dist))))
    lp = float(RootPermutationDistribution.log_pdf(tree))
    if not (abs(lp + math.log(count)) <= 1e-9 * max(1.0, abs(lp))):
        problems.append(({"sub": "log_pdf", "has_outliers": has_out, "n_outliers_ge2": len(f.outliers) >= 2},
                         "log_pdf=%.12g but -log(#orders=%d)=%.12g" % (lp, count, -math.log(count))))
    return {"leaves": leaves, "orders": count, "problems": problems, "n": len(pts), "nout": len(f.outliers)}


def check_big(item):
    """Trees too large to traverse: log_pdf against the closed-form count, and for seeded sampled paths the ancestor constraint
    and the path probability, which must be exactly 1/count (every complete path of the sampler yields a distinct order - the
    traversals of the small trees verify that leaves == orders)."""
    fj, seed = item
    f = forest_unjson(fj)
    from phyclone.smc.utils import RootPermutationDistribution
    from sim.rng import SimGenerator

    pts = sorted(set().union(*f.own) | set(f.outliers))
    r = random.Random(seed)
    data = bridge.make_data(r, max(pts) + 1, samples=1, grid=3, style="flat")
    tree = bridge.build_tree(f, data)
    count = models.count_linear_extensions(f)
    logc = math.log(count)
    problems = []
    has_out = len(f.outliers) > 0
    lp = float(RootPermutationDistribution.log_pdf(tree))
    if not (abs(lp + logc) <= 1e-9 * max(1.0, logc)):
        problems.append(({"sub": "log_pdf", "has_outliers": has_out, "size": "large"}, "log_pdf=%.12g but -log(#orders)=%.12g for a tree of %d data points" % (lp, -logc, len(pts))))
    ch, roots = models.children_of(f)
    node_of = {d: i for i, o in enumerate(f.own) for d in o}
    anc = {}
    for i in range(len(f.own)):
        a = []
        j = f.parent[i]
        while j >= 0:
            a.append(j)
            j = f.parent[j]
        anc[i] = a
    for k in range(12 if len(pts) < 100 else 2):
        g = SimGenerator(mode="choose", tail_seed=runner.hash64(seed, k))
        order = [int(d.idx) for d in RootPermutationDistribution.sample(tree, g)]
        if sorted(order) != pts:
            problems.append(({"sub": "complete", "has_outliers": has_out, "size": "large"}, "sampled order is not a permutation of the data"))
            break
        pos = {d: x for x, d in enumerate(order)}
        bad = False
        for d, i in node_of.items():
            for a in anc[i]:
                if any(pos[e] < pos[d] for e in f.own[a]):
                    bad = True
        if bad:
            problems.append(({"sub": "constraint", "has_outliers": has_out, "size": "large"}, "sampled order violates the ancestor constraint"))
            break
        if not (abs(g.log_prob + logc) <= 1e-9 * max(1.0, logc)):
            problems.append(({"sub": "uniform", "has_outliers": has_out, "size": "large"}, "a sampled order has probability exp(%.12g), uniform is exp(%.12g)" % (g.log_prob, -logc)))
            break
    return {"problems": problems, "n": len(pts)}


def random_forest(r, n):
    pts = list(range(n))
    r.shuffle(pts)
    n_out = r.choice([0, 0, 1, 2, 3]) if n > 3 else r.choice([0, 1])
    out = pts[:n_out]
    rest = pts[n_out:]
    own = []
    while rest:
        k = min(len(rest), r.choice([1, 1, 2, 3, 4]))
        own.append(frozenset(rest[:k]))
        rest = rest[k:]
    par = []
    for i in range(len(own)):
        par.append(r.choice([-1] + list(range(i))) if i else -1)
    # parents must come later in some order; reverse index so that parent index > child is irrelevant here
    return Forest(tuple(own), tuple(par), frozenset(out))


def huge_forest(r):
    """Hundreds to a thousand data points: clones and outlier sets beyond 170 members (170! is the largest factorial a double
    holds) and sibling subtrees of 500+ points each (binomial coefficients beyond the double range)."""
    kind = r.choice(["clone", "outliers", "split", "mixed"])
    sizes, par, n_out = [], [], 0
    if kind == "clone":
        sizes = [r.choice([171, 180, 256, 400])] + [r.choice([1, 2, 5]) for _ in range(r.choice([0, 2, 5]))]
    elif kind == "outliers":
        sizes = [r.choice([1, 3, 10]) for _ in range(r.choice([0, 1, 4]))]
        n_out = r.choice([171, 200, 300])
    elif kind == "split":
        half = r.choice([520, 560])
        k = r.choice([4, 10])
        sizes = [half // k] * (2 * k)
    else:
        sizes = [r.choice([30, 90, 175, 210]) for _ in range(r.choice([3, 6]))]
        n_out = r.choice([0, 5, 180])
    for i in range(len(sizes)):
        if kind == "split":
            k = len(sizes) // 2
            par.append(-1 if i % k == 0 else i - 1)  # two chains side by side
        else:
            par.append(r.choice([-1] + list(range(i))) if i else -1)
    own, nxt = [], 0
    for s_ in sizes:
        own.append(frozenset(range(nxt, nxt + s_)))
        nxt += s_
    return Forest(tuple(own), tuple(par), frozenset(range(nxt, nxt + n_out)))


def shrink(f, pred):
    """Greedy: drop data points while the same problem class persists."""
    changed = True
    while changed:
        changed = False
        pts = sorted(set().union(*f.own) | set(f.outliers)) if (f.own or f.outliers) else []
        for d in pts:
            g = remove_point(f, d)
            if not g.own and not g.outliers:
                continue
            if pred(g):
                f = g
                changed = True
                break
    return f


def run(ctx):
    bridge.warm_up()
    quick = ctx.tier == "quick"
    items = []
    nmax = 4 if quick else 5
    for n in range(1, nmax + 1):
        for f in models.enumerate_forests(range(n), outliers=True):
            items.append((forest_json(f), ctx.sub(("b", len(items)))))
    n_sys = len(items)
    r = random.Random(ctx.sub("rand"))
    n_rand = 150 if quick else 3000
    tries = 0
    while len(items) < n_sys + n_rand and tries < 100 * n_rand:
        tries += 1
        n = r.choice([5, 6, 6, 7, 7]) if quick else r.choice([6, 6, 7, 7, 8])
        f = random_forest(r, n)
        if models.count_linear_extensions(f) <= (3000 if quick else 20000):
            items.append((forest_json(f), ctx.sub(("b", len(items)))))
    res = runner.pmap(check_forest, items, timeout=1200)
    distinct = set()
    leaves = 0
    n_budget = sum(1 for o in res if o.get("budget"))
    ctx.cov["forests_not_judged_outcome_tree_over_budget"] = n_budget
    for (fj, bs), out in zip(items, res):
        leaves += out["leaves"]
        if out["orders"] > 1:
            distinct.add(str(models.canon_sortable(models.canon(forest_unjson(fj)))))
        if out["nout"] > 0:
            ctx.probe("forest_with_outliers")
        if out["nout"] >= 2:
            ctx.probe("forest_with_two_or_more_outliers")
        if out["n"] == out["nout"]:
            ctx.probe("outlier_only_tree")
        for key, detail in out["problems"]:
            f0 = forest_unjson(fj)
            kk = dict(key)

            def pred(g, kk=kk, bs=bs):
                o = check_forest((forest_json(g), bs))
                return any(k == kk for k, _ in o["problems"])

            fmin = shrink(f0, pred)
            ctx.violation(key, detail + " on " + models.canon_str(models.canon(fmin)),
                          {"forest": forest_json(fmin), "build_seed": bs, "key": key})
    if n_budget > 0.25 * len(res):
        ctx.cannot_judge("%d of %d outcome trees exceeded the leaf budget" % (n_budget, len(res)))
    r2 = random.Random(ctx.sub("big"))
    big = []
    for i in range(60 if quick else 1500):
        big.append((forest_json(random_forest(r2, r2.choice([9, 12, 13, 16, 20, 30]))), ctx.sub(("big", i))))
    for i in range(8 if quick else 120):
        big.append((forest_json(huge_forest(r2)), ctx.sub(("huge", i))))
    ctx.probe("trees_with_170_plus_members_or_1000_plus_points", 8 if quick else 120)
    for (fj, sd), out in zip(big, runner.pmap(check_big, big, timeout=1200)):
        for key, detail in out["problems"]:
            ctx.violation(key, detail, {"forest": fj, "build_seed": sd, "key": key, "big": True})
    ctx.cov["large_trees_checked_by_sampled_paths_and_closed_form"] = len(big)
    ctx.cov["evaluations"] = len(items)
    ctx.cov["distinct_nontrivial"] = len(distinct)
    ctx.cov["exhaustive_per_configuration"] = True
    ctx.cov["outcome_trees_traversed_completely"] = len(items)
    ctx.cov["leaves_visited"] = leaves
    ctx.cov["rule"] = ("every abstract forest with <= %d data points (outlier subsets included) plus %d seeded random forests "
                       "with 5-8 points; for each, the complete outcome tree of RootPermutationDistribution.sample is traversed; "
                       "distinct = distinct canonical forests with more than one compatible order" % (nmax, len(items) - n_sys))
    ctx.fault("rng.outcome", leaves)
    for (fj, bs) in items[n_sys:n_sys + 2] + items[5:6]:
        ctx.sample({"forest": fj})
    ctx.cov["components"] = {"real": ["phyclone.smc.utils.RootPermutationDistribution.sample/log_pdf/log_count",
                                      "phyclone.smc.utils.interleave_lists", "phyclone.tree.Tree (built via public API)"],
                             "stand_in": ["numpy Generator -> sim.rng.SimGenerator (choose mode)"]}
    ctx.assumptions += ["the simulated shuffle is uniform over arrangements (self-tested against numpy in selftest)",
                        "uniformity tolerance 1e-9 relative on exact path probabilities"]


def replay(ctx, obj):
    bridge.warm_up()
    out = check_big((obj["forest"], obj["build_seed"])) if obj.get("big") else check_forest((obj["forest"], obj["build_seed"]))
    for key, detail in out["problems"]:
        if key == obj["key"]:
            ctx.violation(key, detail, obj)

"""C20  An interrupted or truncated trace file is never read as a valid result.

Fault enumeration: for each simulated run's trace image, EVERY prefix length (truncation / kill / disk-full point of the
single write) is fed to the three readers; each must raise or produce outputs identical to those from the complete image."""
import contextlib
import io
import random

from sim import runner, world_pipeline as wp

LEVEL = "fault_enumeration"
READERS = [("map", "joint-likelihood"), ("consensus", "counts", 0.5), ("topology", None, True)]
# further readers, applied to every prefix of the short traces and to a stride of the long one
MORE_READERS = [("map", "frequency"), ("consensus", "joint-likelihood", 0.6), ("cli", "map", "joint-likelihood"), ("cli", "consensus", "counts", 0.5),
                ("cli", "topology")]


def outputs(o):
    return (o.get("table"), o.get("newick"), tuple(sorted((o.get("archive") or {}).items())))


def make_trace(seed, long=False):
    r = random.Random(seed)
    if long == "huge" or long == "huge5000":
        # as many stored entries as a default run keeps (thousands): formats that split long traces into parts show only here
        spec = wp.spec_from_seed(seed, boundary=False, chains=2, finite_clock=False, clustered=False, n_mut=2)
        spec["options"].update(num_iters=1100 if long == "huge" else 5000, thin=1, num_particles=2, grid_size=11, burnin=1, subtree_update_prob=0.0,
                               outlier_prob=0.0, num_samples_data_point=1, num_samples_prune_regraph=0, proposal="bootstrap")
        return spec, wp.run_pipeline(spec)
    spec = wp.spec_from_seed(seed, boundary=False, finite_clock=False)
    spec["options"]["num_iters"] = r.choice([1, 2, 4, 8]) if not long else r.choice([40, 45, 70])
    if long:
        spec["options"]["thin"] = 1
        spec["options"]["num_chains"] = 2
    spec["options"]["num_particles"] = r.choice([2, 3])
    spec["options"]["grid_size"] = 11
    if not long and random.Random(seed ^ 0xC4A1).random() < 0.3:
        spec["options"]["num_chains"] = random.Random(seed ^ 0xC4A2).choice([5, 8])  # "any chain count"
    h = wp.run_pipeline(spec)
    return spec, h


def prefix_task(item):
    seed, lo, hi = item[:3]
    long = bool(len(item) > 3 and item[3])
    spec, h = make_trace(seed, long=long)
    img = h["image"]
    readers = READERS + MORE_READERS
    full = [outputs(wp.run_summaries(img, rd)) for rd in readers]
    problems = []
    stats = {"calls": 0, "raised": 0, "identical": 0, "exc_types": {}}
    for k in range(lo, min(hi, len(img))):
        part = img[:k]
        for ri, (rd, ref) in enumerate(zip(readers, full)):
            if ri >= len(READERS) and long and k % 7 != 0 and k < len(img) - 256:
                continue  # the extra readers see every 7th prefix (and the last 256) of the long trace
            o = wp.run_summaries(part, rd)
            stats["calls"] += 1
            if not o["ok"]:
                stats["raised"] += 1
                t = o["exception"]["type"]
                stats["exc_types"][t] = stats["exc_types"].get(t, 0) + 1
                continue
            if outputs(o) == ref:
                stats["identical"] += 1
                continue
            problems.append(({"sub": "partial_trace_accepted", "reader": rd[0]},
                             "%s succeeded on the first %d of %d bytes with outputs that differ from the complete trace's" % (rd[0], k, len(img)),
                             {"seed": seed, "k": k, "reader": list(rd), "long": long}))
    return {"stats": stats, "problems": problems[:2]}


def writer_task(item):
    """Disk-full / kill at byte k during the write itself: the writer must not report success."""
    seed, ks = item[:2]
    long = bool(len(item) > 2 and item[2])
    import phyclone.process_trace.process_trace as ppt

    spec, h = make_trace(seed, long=long)
    res = h["results"]
    fs0 = wp.SimFS()
    fs0.manage("OUT")
    P0 = wp.PatchSet()
    fs0.install(P0, ppt)
    try:
        ppt.create_main_run_output(None, "OUT", {c: dict(v) for c, v in res.items()})
    finally:
        P0.undo()
    if "OUT" not in fs0.images:
        return {"fired": {"enospc": 0, "kill": 0}, "problems": [], "len": 0, "bypassed": True}  # writer went around both seams: no write fault can be injected
    img = fs0.images["OUT"]  # the complete stream of this very writer call (pickle memoisation makes it differ from the run's own)
    problems = []
    fired = {"enospc": 0, "kill": 0}
    for kind in ("enospc", "kill"):
        for k in ks:
            if k >= len(img):
                continue
            fs = wp.SimFS()
            fs.manage("OUT")
            fs.write_fault = (kind, k)
            P = wp.PatchSet()
            fs.install(P, ppt)
            raised = None
            try:
                with contextlib.redirect_stdout(io.StringIO()):
                    ppt.create_main_run_output(None, "OUT", {c: dict(v) for c, v in res.items()})
            except wp.ProcessKilled as e:
                raised = "killed"
            except Exception as e:
                raised = type(e).__name__
            finally:
                P.undo()
            fired[kind] += fs.fired.get(kind, 0)
            durable = fs.images.get("OUT", b"")
            if raised is None:
                problems.append(({"sub": "write_fault_reported_success", "fault": kind}, "writer returned normally although the disk accepted only %d of %d bytes" % (k, len(img)),
                                 {"seed": seed, "k": k, "fault": kind, "long": long}))
            if durable != img[: len(durable)] or len(durable) > k:
                raise runner.HarnessError("durable image after %s@%d is not a prefix of the complete image" % (kind, k))
    return {"fired": fired, "problems": problems[:2], "len": len(img)}


def rlimit_task(item):
    """Disk full / process death enforced by the KERNEL, whatever path the writer takes to the file: a forked child sets
    RLIMIT_FSIZE = k and writes the trace to a real file; with SIGXFSZ ignored every write beyond k bytes fails with EFBIG
    (disk-full-like OSError), with the default action the child is killed at byte k.  The parent then feeds the durable file
    to the readers."""
    import os
    import resource
    import signal
    import tempfile

    seed, ks, long = item
    import phyclone.process_trace.process_trace as ppt

    spec, h = make_trace(seed, long=long)
    res = h["results"]
    problems = []
    fired = {"rlimit_error": 0, "rlimit_kill": 0}
    d = tempfile.mkdtemp(prefix="vrl_")
    try:
        # the complete stream of this very writer call on this very object (pickle memoisation makes it differ from the run's own)
        ref_path = os.path.join(d, "ref.pkl.gz")
        import contextlib
        import io

        with contextlib.redirect_stdout(io.StringIO()):
            ppt.create_main_run_output(None, ref_path, {c: dict(v) for c, v in res.items()})
        full_img = open(ref_path, "rb").read()
        full = [outputs(wp.run_summaries(full_img, rd)) for rd in READERS]
        for mode in ("error", "kill"):
            for k in ks:
                path = os.path.join(d, "t_%s_%d.pkl.gz" % (mode, k))
                pid = os.fork()
                if pid == 0:
                    code = 3
                    try:
                        signal.signal(signal.SIGXFSZ, signal.SIG_IGN if mode == "error" else signal.SIG_DFL)
                        resource.setrlimit(resource.RLIMIT_FSIZE, (k, k))
                        devnull = os.open(os.devnull, os.O_WRONLY)
                        os.dup2(devnull, 1)
                        try:
                            ppt.create_main_run_output(None, path, {c: dict(v) for c, v in res.items()})
                            code = 0  # the writer returned normally
                        except BaseException:
                            code = 1  # the writer raised
                    finally:
                        os._exit(code)
                _, status = os.waitpid(pid, 0)
                killed = os.WIFSIGNALED(status)
                code = os.WEXITSTATUS(status) if os.WIFEXITED(status) else None
                durable = open(path, "rb").read() if os.path.exists(path) else b""
                if len(durable) >= len(full_img) and code == 0:
                    continue  # the limit was not reached (file fits): nothing injected
                fired["rlimit_" + mode] += 1
                if code == 0 and len(durable) < len(full_img):
                    problems.append(({"sub": "write_fault_reported_success", "fault": "rlimit_" + mode},
                                     "the kernel refused writes beyond %d bytes, yet the writer returned normally leaving %d of %d bytes" % (k, len(durable), len(full_img)),
                                     {"seed": seed, "k": k, "mode": mode, "long": long}))
                for rd, ref in zip(READERS, full):
                    o = wp.run_summaries(durable, rd)
                    if o["ok"] and outputs(o) != ref:
                        problems.append(({"sub": "partial_trace_accepted", "reader": rd[0], "fault": "rlimit_" + mode},
                                         "%s succeeded on the %d bytes that reached the disk before the %s at %d" % (rd[0], len(durable), mode, k),
                                         {"seed": seed, "k": k, "mode": mode, "long": long}))
                os.remove(path) if os.path.exists(path) else None
    finally:
        import shutil

        shutil.rmtree(d, ignore_errors=True)
    return {"fired": fired, "problems": problems[:2]}


def huge_task(item):
    """Sampled (not exhaustive) prefixes of a trace with thousands of entries per chain."""
    seed, kind, ks = item
    spec, h = make_trace(seed, long=kind)
    img = h["image"]
    full = [outputs(wp.run_summaries(img, rd)) for rd in READERS]
    problems = []
    calls = 0
    for k in ks:
        if k >= len(img):
            continue
        for rd, ref in zip(READERS, full):
            o = wp.run_summaries(img[:k], rd)
            calls += 1
            if o["ok"] and outputs(o) != ref:
                problems.append(({"sub": "partial_trace_accepted", "reader": rd[0], "trace": "thousands_of_entries"},
                                 "%s succeeded on the first %d of %d bytes of a trace with %d entries per chain, with outputs that differ from the complete trace's" % (
                                     rd[0], k, len(img), len(h["results"][0]["trace"])), {"seed": seed, "k": k, "huge": kind}))
    return {"calls": calls, "problems": problems[:2], "len": len(img)}


def failed_worker_task(seed):
    spec = wp.spec_from_seed(seed, boundary=False, chains=2, finite_clock=False)
    spec["options"]["num_iters"] = 2
    spec["schedule"]["fail_chain"] = random.Random(seed).randrange(2)
    spec["schedule"]["fail_kind"] = random.Random(seed ^ 5).choice(["custom", "memory", "broken_pool", "oserror", "killed"])
    h = wp.run_pipeline(spec)
    problems = []
    if h["exception"] is None:
        problems.append(({"sub": "failed_chain_ignored"}, "a chain's worker died and `run` returned normally", {"seed": seed}))
    if h["image"] is not None:
        o = wp.run_summaries(h["image"], READERS[0])
        if o["ok"]:
            problems.append(({"sub": "trace_written_after_failed_chain"}, "a trace file was written and is readable although a chain failed", {"seed": seed}))
    return {"problems": problems, "fired": h["stats"].get("worker_failed", 0)}


def run(ctx):
    wp.warm_up()
    quick = ctx.tier == "quick"
    n_traces = 3 if quick else 80
    seeds = [ctx.sub(("trace", i)) for i in range(n_traces)]
    lens = {}
    items = []
    long_seeds = set(seeds[:1] if quick else seeds[:6])  # traces long enough to span several blocks of any chunked format
    for s in seeds:
        spec, h = make_trace(s, long=s in long_seeds)
        if h["image"] is None:
            raise runner.HarnessError("trace run raised: %r" % (h["exception"],))
        L = len(h["image"])
        lens[s] = (L, spec["options"]["num_chains"], sum(len(v["trace"]) for v in h["results"].values()), spec["inputs"]["cluster_rows"] is not None)
        step = 200
        for lo in range(0, L, step):
            items.append((s, lo, lo + step, s in long_seeds))
    res = runner.pmap(prefix_task, items, timeout=1500)
    calls = raised = ident = 0
    exc_types = {}
    for out in res:
        calls += out["stats"]["calls"]
        raised += out["stats"]["raised"]
        ident += out["stats"]["identical"]
        for k, v in out["stats"]["exc_types"].items():
            exc_types[k] = exc_types.get(k, 0) + v
        for key, detail, rep in out["problems"]:
            ctx.violation(key, detail, dict(rep, kind="prefix", key=key))
    witems = []
    for s in seeds:
        L = lens[s][0]
        ks = sorted(set(list(range(0, 64)) + list(range(max(0, L - 64), L)) + list(range(0, L, 256 if quick else 64))))
        witems.append((s, ks, s in long_seeds))
    wres = runner.pmap(writer_task, witems, timeout=1500)
    for out in wres:
        if out.get("bypassed"):
            ctx.probe("writer_bypassed_simulated_disk_no_write_fault_injected")
        ctx.fault("fs.enospc@k", out["fired"]["enospc"])
        ctx.fault("fs.kill@k", out["fired"]["kill"])
        for key, detail, rep in out["problems"]:
            ctx.violation(key, detail, dict(rep, kind="writer", key=key))
    ritems = []
    for s in seeds:
        L = lens[s][0]
        ritems.append((s, sorted(set([0, 1, 9, 10, 11, 64, L // 3, L // 2, L - 64, L - 12, L - 9, L - 8, L - 1] + list(range(128, L, 1024 if quick else 256)))), s in long_seeds))
    for out in runner.pmap(rlimit_task, ritems, timeout=1500):
        ctx.fault("fs.rlimit_error@k", out["fired"]["rlimit_error"])
        ctx.fault("fs.rlimit_kill@k", out["fired"]["rlimit_kill"])
        for key, detail, rep in out["problems"]:
            ctx.violation(key, detail, dict(rep, kind="rlimit", key=key))
    hkind = "huge" if quick else "huge5000"
    hseed = ctx.sub("huge")
    hspec, hh = make_trace(hseed, long=hkind)
    HL = len(hh["image"])
    hks = sorted(set(list(range(0, 64)) + list(range(max(0, HL - 600), HL)) + list(range(64, HL, 23 if quick else 41)) +
                     [b + dlt for b in range(4096, HL, 4096) for dlt in (-1, 0, 1)]))
    hitems = [(hseed, hkind, hks[i:i + 150]) for i in range(0, len(hks), 150)]
    hcalls = 0
    for out in runner.pmap(huge_task, hitems, timeout=1500):
        hcalls += out["calls"]
        for key, detail, rep in out["problems"]:
            ctx.violation(key, detail, dict(rep, kind="huge", key=key))
    ctx.cov["trace_with_thousands_of_entries"] = {"bytes": HL, "entries_per_chain": len(hh["results"][0]["trace"]), "prefixes_sampled": len(hks), "reader_calls": hcalls}
    fres = runner.pmap(failed_worker_task, [ctx.sub(("wf", i)) for i in range(12 if quick else 100)])
    for out in fres:
        ctx.fault("sched.worker_fail", out["fired"])
        for key, detail, rep in out["problems"]:
            ctx.violation(key, detail, dict(rep, kind="worker", key=key))
    n_prefixes = sum(v[0] for v in lens.values())
    ctx.fault("fs.truncate@k", n_prefixes)
    ctx.cov["evaluations"] = calls
    ctx.cov["distinct_nontrivial"] = n_prefixes
    ctx.cov["exhaustive"] = True
    ctx.cov["reader_calls_that_raised"] = raised
    ctx.cov["reader_calls_identical_to_complete"] = ident
    ctx.cov["reader_exception_types"] = exc_types
    ctx.cov["traces"] = [{"bytes": v[0], "chains": v[1], "entries": v[2], "clustered": v[3]} for v in lens.values()]
    ctx.cov["rule"] = ("for each of %d simulated runs (1-3, sometimes 5 or 8, chains, 2-9 entries per chain, clustered or not) EVERY prefix length 0..len-1 of the trace "
                       "image is read by map, consensus and topology-report (with archive), in both modes each and through the click commands: one evaluation = one reader call; distinct = "
                       "distinct (trace, prefix length) crash points; the write itself is cut by ENOSPC and by process death at all offsets in "
                       "the first and last 64 bytes and every %d bytes, and once more by the kernel itself (RLIMIT_FSIZE in a forked child: EFBIG or death by SIGXFSZ) whatever path the writer takes to the file; plus runs whose chain worker dies" % (n_traces, 256 if quick else 64))
    ctx.sample({"trace_bytes": list(lens.values())[0][0], "prefix": 17, "readers": [list(r) for r in READERS]})
    ctx.cov["components"] = {"real": ["process_trace.create_main_run_output", "write_map_results", "write_consensus_results", "write_topology_report",
                                      "gzip/pickle from the standard library"],
                             "stand_in": ["the file behind gzip.GzipFile -> SimFS FaultyFile (ENOSPC / kill after k bytes, truncated images)"]}
    ctx.assumptions += ["a failing command may leave a half-written output table behind; that is recorded, not flagged (the statement speaks of results produced from a partial trace)"]


def replay(ctx, obj):
    wp.warm_up()
    if obj["kind"] == "prefix":
        out = prefix_task((obj["seed"], obj["k"], obj["k"] + 1, obj.get("long", False)))
    elif obj["kind"] == "writer":
        out = writer_task((obj["seed"], [obj["k"]], obj.get("long", False)))
    elif obj["kind"] == "huge":
        out = huge_task((obj["seed"], obj["huge"], [obj["k"]]))
    elif obj["kind"] == "rlimit":
        out = rlimit_task((obj["seed"], [obj["k"]], obj.get("long", False)))
    else:
        out = failed_worker_task(obj["seed"])
    for key, detail, rep in out["problems"]:
        if key == obj["key"]:
            ctx.violation(key, detail, obj)
    ctx.cov["evaluations"] = 1

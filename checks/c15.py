"""C15  Trees survive serialisation (a: edit-history world with restore faults and twin execution);
trace entries are self-consistent (b: pipeline world with clock faults, against the trace model)."""
import math

from sim import bridge, editcheck, models, monitors, runner, trace_model, world_pipeline as wp

LEVEL = "exploration"
ORACLES = {"c15"}


def trace_task(seed):
    big = seed % 6 == 0  # a sixth of the runs: tens of mutations, five samples
    spec = wp.spec_from_seed(seed, boundary=False, finite_clock=None, n_mut=(12 + seed % 11) if big else None, n_samples=5 if big else None)
    out = judge_trace(spec)
    out["seed"] = seed
    if out["problems"]:
        key = out["problems"][0][0]

        def fails(sp):
            try:
                return any(k == key for k, _ in judge_trace(sp)["problems"])
            except Exception:
                return False

        smin = wp.minimise_spec(spec, fails, budget_s=60)
        o2 = judge_trace(smin)
        det = [d for k, d in o2["problems"] if k == key]
        out["problems"] = [(key, det[0] if det else out["problems"][0][1])]
        out["min_spec"] = wp.jsonable_spec(smin)
    return out


def judge_trace(spec):
    from phyclone.tree import FSCRPDistribution, Tree, TreeJointDistribution

    spec = wp.unjson_spec(spec)
    seed = spec.get("seed")
    o = spec["options"]
    h = wp.run_pipeline(spec)
    problems = []
    stats = {"entries": 0, "limit_hit_burnin": 0, "limit_hit_main": 0, "clock_back": int(any(d < 0 for d in spec["deltas"]))}
    if h["exception"] is not None or h["results"] is None:
        return {"seed": seed, "problems": [], "stats": stats, "skipped": "run raised %r (left to C19)" % (h["exception"],), "opts": o}
    k = o["num_chains"]
    finite = math.isfinite(spec["max_time"])
    by_chain = h.get("main_iters_by_chain", {})
    if h["iter_calls"]["burnin"] < k * o["burnin"]:
        stats["limit_hit_burnin"] = 1
    if any(m < o["num_iters"] for m in by_chain.values()):
        stats["limit_hit_main"] = 1
    if not finite and (h["iter_calls"]["burnin"] != k * o["burnin"] or any(m != o["num_iters"] for m in by_chain.values())):
        problems.append(({"sub": "stopped_early_without_time_limit"}, "executed %r / %r iterations with no time limit (burn-in %d, iterations %d, chains %d)" % (
            h["iter_calls"], by_chain, o["burnin"], o["num_iters"], k)))
    post = {ch: cn for ch, cn in h["post_burnin"]}
    for ch, res in sorted(h["results"].items()):
        data = res["data"]
        n = len(data)
        iters = [e["iter"] for e in res["trace"]]
        m_exec = by_chain.get(ch, 0)  # main-loop iterations the monitor saw this chain execute (decided by the clock script)
        want = [0] + [i for i in range(m_exec) if i % o["thin"] == 0]
        if iters != want:
            problems.append(({"sub": "iter_sequence"}, "chain %d records iterations %r, expected %r (thin=%d, iterations=%d, clock expiry)" % (
                ch, iters, want, o["thin"], o["num_iters"])))
            break
        for pos, e in enumerate(res["trace"]):
            stats["entries"] += 1
            t = Tree.from_dict(e["tree"])
            bad = monitors.wellformed(t, expected=set(range(n)))
            if bad:
                problems.append(({"sub": "entry_ill_formed", "code": bad[0][0]}, "chain %d entry %d: %s" % (ch, pos, bad[0][1])))
                break
            td = TreeJointDistribution(FSCRPDistribution(e["alpha"]))
            lp1 = float(td.log_p_one(t))
            if not (abs(lp1 - e["log_p_one"]) <= 1e-9 * max(1.0, abs(lp1))):
                problems.append(({"sub": "log_p_one_mismatch"}, "chain %d entry %d (iter %d): recorded log_p_one %.12g, recomputed under recorded alpha %.6g: %.12g" % (
                    ch, pos, e["iter"], e["log_p_one"], e["alpha"], lp1)))
                break
            if pos == 0 and ch in post and post[ch] is not None:
                if models.canon(trace_model.forest_from_image(e["tree"])) != post[ch]:
                    problems.append(({"sub": "first_entry_not_post_burnin"}, "chain %d: first entry is not the tree that left burn-in" % ch))
                    break
        if problems:
            break
    stats["sim_time"] = h.get("sim_time", 0.0)
    return {"seed": seed, "problems": problems[:1], "stats": stats, "skipped": None, "opts": o}


def run(ctx):
    wp.warm_up()
    quick = ctx.tier == "quick"
    editcheck.run_histories(ctx, ORACLES, 3000 if quick else 80000)
    editcheck.run_histories(ctx, ORACLES, 60 if quick else 3000, tag="big", fft="big")
    seeds = [ctx.sub(("trace", i)) for i in range(400 if quick else 10000)]
    res = runner.pmap(trace_task, seeds)
    entries = 0
    sig = set()
    for out in res:
        entries += out["stats"]["entries"]
        o = out["opts"]
        sig.add((o["num_iters"], o["thin"], o["burnin"], o["num_chains"], o["concentration_update"], out["stats"]["limit_hit_burnin"], out["stats"]["limit_hit_main"]))
        if out["stats"]["limit_hit_burnin"]:
            ctx.fault("clock.expiry_during_burnin")
        if out["stats"]["limit_hit_main"]:
            ctx.fault("clock.expiry_during_main_loop")
        if out["stats"]["clock_back"]:
            ctx.fault("clock.back")
        if out["skipped"]:
            ctx.probe("run_raised_left_to_C19")
        for key, detail in out["problems"]:
            ctx.violation(key, detail + " | found at run seed %d, minimised run description in the replay file" % out["seed"],
                          {"world": "trace", "seed": out["seed"], "key": key, "spec": out.get("min_spec")})
    n_skipped = sum(1 for o in res if o["skipped"])
    if n_skipped > 0.25 * len(res):
        ctx.cannot_judge("%d of %d simulated runs raised; trace entries cannot be judged (see C19)" % (n_skipped, len(res)))
    ctx.cov["evaluations"] += len(res)
    ctx.cov["distinct_nontrivial"] += len(sig)
    ctx.cov["trace_entries_checked"] = entries
    ctx.cov["simulated_seconds_covered"] = round(sum(o["stats"].get("sim_time", 0.0) for o in res), 1)
    ctx.cov["rule"] = ("(a) seeded edit histories with restore faults (dict, pickle, gzip stream, copy, TreeHolder) at arbitrary steps: restored "
                       "tree must have the same canonical form, labels, nodes, per-clone vectors and densities, and in twin mode stay equal to "
                       "the un-restored original under every later operation; every stored image is restored a second time and again after every later operation and must keep giving the stored tree; (b) simulated runs (iterations 3-12, thin 1-7, burn-in 1-5, chains "
                       "1-3, concentration update on/off, time limit finite with scheduler-chosen expiry or infinite): every entry restores to a "
                       "well-formed tree over all data, log_p_one recomputed under the entry's alpha matches, first entry = post-burn-in tree, "
                       "iteration labels and time fields equal the trace model's prediction from the clock script; distinct for (b) = distinct "
                       "(iterations, thin, burn-in, chains, conc update, expiry phase) tuples")
    ctx.cov["components"] = {"real": ["Tree.to_dict/from_dict", "TreeHolder", "run.append_to_trace/_run_main_sampler/_run_burnin/setup_trace",
                                      "process_trace.create_main_run_output (gzip+pickle)"],
                             "stand_in": ["Timer clock -> SimClock (scripted deltas)", "executor -> SimExecutor", "gzip file -> SimFS"]}


def replay(ctx, obj):
    wp.warm_up()
    if obj.get("world") == "trace":
        out = judge_trace(obj["spec"]) if obj.get("spec") else trace_task(obj["seed"])
        for key, detail in out["problems"]:
            if key == obj["key"]:
                ctx.violation(key, detail, obj)
        ctx.cov["evaluations"] = 1
    else:
        editcheck.replay_history(ctx, obj)

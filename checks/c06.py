"""C06  Incrementally maintained likelihoods equal a from-scratch rebuild, after any edit history."""
from sim import bridge, editcheck

LEVEL = "exploration"
ORACLES = {"c06"}


def run(ctx):
    bridge.warm_up()
    quick = ctx.tier == "quick"
    editcheck.run_histories(ctx, ORACLES, 4000 if quick else 100000)
    editcheck.run_histories(ctx, ORACLES, 60 if quick else 3000, tag="big", fft="big")
    editcheck.run_histories(ctx, ORACLES, 16 if quick else 600, tag="fft", fft=True)
    editcheck.run_workloads(ctx, ORACLES, 96 if quick else 3000)
    ctx.cov["rule"] = ("seeded edit histories (placement of 1-8, in a separate batch 12-60, data points, 1-3 samples optionally at levels hundreds of nats apart, concentration 1e-10..1e7, then 0-60 moves: data-point move, prune-regraft, subtree "
                       "replacement, relabel) with persistence faults at random steps; after every applied operation every clone's "
                       "log_p/log_r, the virtual root's log_r and both joint densities are compared with a tree rebuilt from scratch with memoisation bypassed "
                       "from the reference forest (1e-8 + 1e-9|x|); plus real sampler chains with the Tree monitor rebuilding at a "
                       "sampled quarter of outermost Tree calls; non-trivial = histories with >= 3 applied operations / chains with > 20 monitored calls")
    ctx.cov["components"] = {"real": ["phyclone.tree.Tree / TreeNode / visitors", "TreeJointDistribution", "TreeHolder (persist.holder)",
                                      "run.run_phyclone_chain and all samplers (workload world)"],
                             "stand_in": ["workload rng: SimGenerator record mode (real numpy stream, logged)"]}
    ctx.assumptions += ["histories stay inside the samplers' grammar (create_root_node only on trees grown from empty; a clone is never emptied)"]


def replay(ctx, obj):
    bridge.warm_up()
    if obj.get("world") == "samplers":
        editcheck.replay_workload(ctx, obj)
    else:
        editcheck.replay_history(ctx, obj)

"""C14  Memoised results equal unmemoised computation at call time (cache shadow under cache faults)."""
import contextlib
import io
import math
import random

from sim import bridge, cacheshadow, runner
from sim.rng import SimGenerator

LEVEL = "exploration"
NAMES = list(cacheshadow.SITES)


def task(seed):
    import phyclone.run as prun
    from phyclone.tree import FSCRPDistribution, Tree, TreeJointDistribution
    from phyclone.utils.dev import clear_proposal_dist_caches

    r = random.Random(seed)
    bridge.clear_caches()  # the repository's own wrapper objects (sizes "as_shipped") start empty, with zeroed statistics, whatever this worker ran before
    sizes = {n: r.choice([1, 2, 3, 16, "shipped", "as_shipped"]) for n in NAMES}
    u = r.random()
    if u < 0.1:
        sizes = {n: "off" for n in NAMES}
    elif u < 0.3:
        sizes = {n: "as_shipped" for n in NAMES}  # the repository's own wrapper objects, untouched
    grid = r.choice([5, 11, 21, 21, 40, 101])
    samples = r.choice([1, 2, 3])
    n = r.choice([2, 3, 4, 5, 6, 8, 10, 12])
    outlier_prob = r.choice([0.0, 0.0, 0.05, 0.3])
    data = bridge.make_data(r, n, samples=samples, grid=grid, style=r.choice(["gauss", "peaked", "flat"]), outlier_prob=outlier_prob)
    n_chains = r.choice([1, 1, 2])
    shadow = cacheshadow.CacheShadow(sizes).install()
    fired = {"cache.size": 1, "cache.clear": 0, "alpha.change_without_clear": 0, "cache.off": int(all(v == "off" for v in sizes.values())),
             "interleaved_kernels": 0}
    exc = None
    try:
        chains = []
        for c in range(n_chains):
            g = SimGenerator(mode="record", seed=r.randrange(1 << 30), max_draws=3000000)
            td = TreeJointDistribution(FSCRPDistribution(r.choice([0.3, 1.0, 1.0, 4.0])))
            proposal = r.choice(["semi-adapted", "fully-adapted", "semi-adapted", "bootstrap"])
            kernel = prun.setup_kernel(outlier_prob, proposal, g, td)
            samplers = prun.setup_samplers(kernel, r.choice([2, 3, 5, 8]), outlier_prob, r.choice([0.0, 0.5, 1.0]), g, td)
            chains.append(dict(g=g, td=td, samplers=samplers, tree=Tree.get_single_node_tree(data)))
        if n_chains > 1:
            fired["interleaved_kernels"] = 1
        for sweep in range(r.choice([2, 3, 5]) if r.random() < 0.97 else 60):
            for ch in chains:
                s = ch["samplers"]
                if r.random() < 0.5:
                    clear_proposal_dist_caches()  # what the run loop does each iteration
                if r.random() < 0.25:
                    for nm in r.sample(NAMES, r.randint(1, len(NAMES))):
                        shadow.wrapped[nm].cache_clear()
                    fired["cache.clear"] += 1
                if r.random() < 0.5:
                    ch["td"].prior.alpha = round(math.exp(r.uniform(math.log(0.05), math.log(20))), 5)
                    fired["alpha.change_without_clear"] += 1
                with contextlib.redirect_stdout(io.StringIO()):
                    t = ch["tree"]
                    step = r.choice(["burnin", "pg", "pg", "subtree", "dp", "prg"])
                    if step == "burnin":
                        t = s.burnin_sampler.sample_tree(t)
                    elif step == "pg":
                        t = s.tree_sampler.sample_tree(t)
                    elif step == "subtree":
                        t = s.subtree_sampler.sample_tree(t)
                    elif step == "dp":
                        t = s.dp_sampler.sample_tree(t)
                    else:
                        t = s.prg_sampler.sample_tree(t)
                    t.relabel_nodes()
                    if r.random() < 0.3:
                        prun.update_concentration_value(s.conc_sampler, t, ch["td"])
                    ch["tree"] = t
                if shadow.problems:
                    break
            if shadow.problems:
                break
    except Exception as e:
        import traceback

        exc = "%s: %s" % (type(e).__name__, str(e)[:200])
        frames = traceback.extract_tb(e.__traceback__)
        if frames and "/phyclone/" not in frames[-1].filename and "site-packages" not in frames[-1].filename:
            exc = "HARNESS " + exc + " at %s:%d" % (frames[-1].filename, frames[-1].lineno)
    finally:
        info = shadow.info()
        shadow.uninstall()
        bridge.clear_caches()
    return {"seed": seed, "problems": shadow.problems[:1], "calls": shadow.calls, "info": info, "fired": fired, "sizes": sizes, "exc": exc,
            "sigs": len(shadow.sigs)}


def run(ctx):
    bridge.warm_up()
    quick = ctx.tier == "quick"
    seeds = [ctx.sub(("w", i)) for i in range(320 if quick else 40000)]
    res = runner.pmap(task, seeds, timeout=1500)
    calls = {n: 0 for n in NAMES}
    hits = {n: 0 for n in NAMES}
    evict = {n: 0 for n in NAMES}
    sig = 0
    for out in res:
        for n in NAMES:
            calls[n] += out["calls"][n]
            h, m, mx, cur = out["info"][n]
            hits[n] += h
            if mx is not None and mx > 0:
                evict[n] += max(0, m - cur)
        sig += out["sigs"]
        ctx.merge_counts("fault_kinds_fired", out["fired"])
        if out["exc"] and out["exc"].startswith("HARNESS"):
            raise runner.HarnessError("cache-shadow workload failed inside the harness (seed %d): %s" % (out["seed"], out["exc"]))
        if out["exc"]:
            ctx.probe("workload_raised_left_to_C19")
        for key, detail in out["problems"]:
            ctx.violation(key, detail + " | workload seed %d sizes %r" % (out["seed"], out["sizes"]), {"seed": out["seed"], "key": key})
    n_exc = sum(1 for o in res if o["exc"])
    if n_exc > 0.25 * len(res):
        ctx.cannot_judge("%d of %d cache-shadow workloads raised; memoisation cannot be judged (see C19)" % (n_exc, len(res)))
    ctx.cov["evaluations"] = sum(calls.values())
    ctx.cov["distinct_nontrivial"] = sig if sig >= 2 else len(res)
    ctx.cov["workloads"] = len(res)
    ctx.cov["shadowed_calls"] = calls
    ctx.cov["cache_hits"] = hits
    ctx.cov["evictions"] = evict
    for n in NAMES:
        if hits[n]:
            ctx.probe("hit_" + n, hits[n])
        if evict[n]:
            ctx.probe("eviction_" + n, evict[n])
    ctx.cov["rule"] = ("seeded sampler workloads (burn-in SMC, particle Gibbs with three proposals, subtree updates, data-point and prune-regraft "
                       "moves, concentration updates; 2-8 data points; 1-2 interleaved kernels per process; one grid shape per process) with the five "
                       "memoised entry points re-wrapped at a per-run cache size in {1,2,3,16,shipped,off} or left exactly as the repository decorated them, caches cleared at random points and "
                       "alpha changed between sweeps WITHOUT a clear; one evaluation = one shadowed call compared with the unmemoised original at "
                       "that moment; distinct = distinct (entry point, support size, parent absent) proposal signatures summed over workloads")
    ctx.sample({"workload_seed": res[0]["seed"], "sizes": res[0]["sizes"], "calls": res[0]["calls"]})
    ctx.cov["components"] = {"real": ["phyclone.utils.utils list_of_np_cache / two_np_arr_cache / hashers", "tree.utils.compute_log_S / _convolve_two_children",
                                      "semi/fully adapted proposal caches", "get_cached_new_tree", "utils.dev.clear_proposal_dist_caches", "all samplers"],
                             "stand_in": ["the memoising wrappers are re-created by the harness from the repo's own decorators at a per-run maxsize",
                                          "rng: SimGenerator record mode"]}
    ctx.assumptions += ["a hit may legally return the value computed for a permutation of the children: arrays are compared to 1e-9, not bitwise",
                        "proposal distributions are compared on canonical trees, not on dictionary images"]


def replay(ctx, obj):
    bridge.warm_up()
    out = task(obj["seed"])
    for key, detail in out["problems"]:
        if key == obj["key"]:
            ctx.violation(key, detail, obj)
    ctx.cov["evaluations"] = 1

"""Reference model over trace files and summary outputs.  No phyclone imports: works on the dictionary images
(`graph`, `node_idx_rev`, `node_data`) and on the text outputs only."""
import csv
import io
import math

from sim import models
from sim.models import Forest

OUTLIER = -1


def forest_from_image(td):
    """Trace entry's tree image -> abstract Forest (data-point ids)."""
    rev = dict(td["node_idx_rev"])
    names = [n for n in rev.values() if n != "root"]
    pos = {n: i for i, n in enumerate(names)}
    parent = {n: -1 for n in names}
    for e in list(td["graph"]):
        p, c = e[0], e[1]
        pn, cn = rev[p], rev[c]
        parent[cn] = -1 if pn == "root" else pos[pn]
    own = []
    nd = td["node_data"]
    for n in names:
        own.append(frozenset(int(dp.idx) for dp in nd.get(n, [])))
    outl = frozenset(int(dp.idx) for dp in nd.get(OUTLIER, []))
    return Forest(tuple(own), tuple(parent[n] for n in names), outl)


def image_labels(td):
    return {int(dp.idx): n for n, l in td["node_data"].items() if n != "root" for dp in l}


def entries(results):
    """[(chain, position, entry)] in chain-number order (the order is irrelevant to every oracle)."""
    out = []
    for ch in sorted(results):
        for i, e in enumerate(results[ch]["trace"]):
            out.append((ch, i, e))
    return out


def group_by_form(results):
    groups = {}
    for ch, i, e in entries(results):
        c = models.canon(forest_from_image(e["tree"]))
        groups.setdefault(c, []).append((ch, i, e))
    return groups


# ------------------------------------------------------------------ text outputs
def parse_newick(s):
    """'(a,(b)c)root;' -> {label: parent label}; labels as strings."""
    s = s.strip()
    assert s.endswith(";"), "newick string does not end with ';'"
    s = s[:-1]
    parent = {}
    stack = []
    pending = []  # children lists per open paren
    i = 0
    last_children = None
    n = len(s)
    while i < n:
        ch = s[i]
        if ch == "(":
            pending.append([])
            i += 1
        elif ch == ",":
            i += 1
        elif ch == ")":
            last_children = pending.pop()
            i += 1
        else:
            j = i
            while j < n and s[j] not in "(),":
                j += 1
            label = s[i:j]
            if last_children is not None:
                for c in last_children:
                    parent[c] = label
                last_children = None
            if pending:
                pending[-1].append(label)
            else:
                parent[label] = None
            i = j
    return parent


def parse_table(text):
    rd = csv.DictReader(io.StringIO(text), delimiter="\t")
    return list(rd)


def forest_from_outputs(table_rows, newick, name_to_idx, clustered):
    """Results table + Newick -> abstract Forest over data-point ids.
    name_to_idx: data-point name (mutation id, or str(cluster id)) -> idx."""
    par = parse_newick(newick)
    labels = [l for l in par if l != "root"]
    pos = {l: i for i, l in enumerate(labels)}
    own = [set() for _ in labels]
    outl = set()
    for row in table_rows:
        name = str(row["cluster_id"]) if clustered else row["mutation_id"]
        idx = name_to_idx[name]
        cl = str(row["clone_id"])
        if cl == str(OUTLIER):
            outl.add(idx)
        else:
            own[pos[cl]].add(idx)
    parent = []
    for l in labels:
        p = par[l]
        parent.append(-1 if p == "root" else pos[p])
    return Forest(tuple(frozenset(o) for o in own), tuple(parent), frozenset(outl))


# ------------------------------------------------------------------ C16
def clade_supports(results, weighted):
    """support of each clade (frozenset of data ids, own + descendants, for every clone)."""
    groups = group_by_form(results)
    sup = {}
    if not weighted:
        tot = sum(len(v) for v in groups.values())
        for c, lst in groups.items():
            for own, clade in c[0]:
                sup[clade] = sup.get(clade, 0.0)
            for clade in set(cl for _, cl in c[0]):
                sup[clade] = sup.get(clade, 0.0) + len(lst)
        return {k: v / tot for k, v in sup.items()}, groups
    ws = {}
    for c, lst in groups.items():
        ws[c] = max(e["log_p_one"] for _, _, e in lst) + math.log(len(lst))
    m = max(ws.values())
    z = math.fsum(math.exp(v - m) for v in ws.values())
    for c, lst in groups.items():
        w = math.exp(ws[c] - m) / z
        for clade in set(cl for _, cl in c[0]):
            sup[clade] = sup.get(clade, 0.0) + w
    return sup, groups


# ------------------------------------------------------------------ C15b
def expected_iterations(burnin, num_iters, thin, max_time, deltas):
    """Which iterations execute and which are recorded, given the clock script.
    Read k of the clock returns T_k, T_0 = 0, T_k = T_{k-1} + deltas[k-1] (the last delta repeats).
    Every iteration reads the clock twice (Timer start / stop)."""
    def d(k):
        if not deltas:
            return 0.0
        return deltas[k - 1] if k - 1 < len(deltas) else deltas[-1]

    reads = 0
    T = 0.0
    elapsed = 0.0

    def read():
        nonlocal reads, T
        if reads > 0:
            T += d(reads)
        reads += 1
        return T

    burn_done = 0
    for i in range(burnin):
        a = read()
        b = read()
        elapsed += b - a
        burn_done += 1
        if elapsed > max_time:
            break
    rec = [(0, elapsed)]  # post-burn-in state
    main_done = 0
    for i in range(num_iters):
        a = read()
        b = read()
        elapsed += b - a
        main_done += 1
        if i % thin == 0:
            rec.append((i, elapsed))
        if elapsed >= max_time:
            break
    return {"burnin_executed": burn_done, "main_executed": main_done, "recorded": rec}

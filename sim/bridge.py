"""Bridge between phyclone objects and the reference models (public read API only), data factories."""
import math

import numpy as np

from sim import models
from sim.models import Forest


def phy():
    import phyclone.tree as T
    return T


def to_forest(tree):
    """phyclone Tree -> abstract Forest, through labels / get_parent / outliers / nodes only."""
    labels = tree.labels
    out_name = tree.outlier_node_name
    nodes = list(tree.nodes)
    pos = {n: i for i, n in enumerate(nodes)}
    own = [set() for _ in nodes]
    outl = set()
    for dp, n in labels.items():
        if n == out_name:
            outl.add(int(dp))
        else:
            own[pos[n]].add(int(dp))
    parent = []
    for n in nodes:
        p = tree.get_parent(n)
        parent.append(-1 if p == tree.root_node_name else pos[p])
    for d in tree.outliers:
        outl.add(int(d.idx))
    return Forest(tuple(frozenset(o) for o in own), tuple(parent), frozenset(outl))


def canon_tree(tree):
    return models.canon(to_forest(tree))


def build_tree(forest, data, order=None):
    """Abstract forest -> real Tree through the public API, bottom-up.
    data: dict/list idx -> DataPoint.  order: optional permutation of node positions (children always
    before parents is enforced)."""
    from phyclone.tree import Tree

    dp = data if isinstance(data, dict) else {d.idx: d for d in data}
    grid_size = next(iter(dp.values())).grid_size
    tree = Tree(grid_size)
    ch, roots = models.children_of(forest)
    name = {}
    seq = list(order) if order is not None else list(range(len(forest.own)))
    done = set()

    def emit(i):
        if i in done:
            return
        for c in ch[i]:
            emit(c)
        pts = [dp[k] for k in sorted(forest.own[i])]
        name[i] = tree.create_root_node(children=[name[c] for c in ch[i]], data=pts)
        done.add(i)

    for i in seq:
        emit(i)
    for k in sorted(forest.outliers):
        tree.add_data_point_to_outliers(dp[k])
    return tree


# ------------------------------------------------------------------ data
def make_data(rng, n, samples=1, grid=5, style="gauss", outlier_prob=0.0, spread=6.0, hetero=False, sample_levels=None):
    """n DataPoints with (samples x grid) log-likelihood rows inside a small dynamic range.
    rng: random.Random (the harness PRNG, never the device under test)."""
    from phyclone.data.base import DataPoint

    data = []
    xs = np.linspace(0.0, 1.0, grid)
    for i in range(n):
        rows = []
        for s in range(samples):
            if style == "flat":
                row = np.zeros(grid)
            elif style == "binom":
                # informative rows of realistic shape: log Binomial(d, k | p = grid value clipped to [0.02, 0.98]), d = 12
                d = 12
                k = rng.randint(0, d)
                pg = np.clip(xs, 0.02, 0.98)
                row = k * np.log(pg) + (d - k) * np.log1p(-pg)
            elif style == "narrow":
                # dynamic range far inside the FFT path's accuracy window (every entry stays above 1e-4 of the row peak)
                row = np.array([rng.uniform(-0.5, 0.5) for _ in range(grid)])
            elif style == "peaked":
                mu = rng.random()
                sd = 0.08 + 0.3 * rng.random()
                row = -0.5 * ((xs - mu) / sd) ** 2
                row = np.maximum(row, -spread * 3)
            else:
                row = np.array([rng.gauss(0.0, 1.0) * spread / 3.0 for _ in range(grid)])
            if sample_levels:
                # samples of very different depth: every row of sample s sits at its own level (the dynamic range inside a row
                # is unchanged); over many data points the samples' totals end up hundreds of nats apart
                row = row + float(sample_levels[s % len(sample_levels)])
            rows.append(row)
        val = np.ascontiguousarray(np.array(rows, dtype=np.float64))
        if outlier_prob and outlier_prob > 0:
            from phyclone.data.pyclone import compute_outlier_prob

            # hetero: per-point outlier prior as for pre-clustered input (log p and log(1-p) times the cluster size)
            lo, ln = compute_outlier_prob(outlier_prob, (1 + (i * 7) % 3) if hetero else 1)
            data.append(DataPoint(i, val, outlier_prob=lo, outlier_prob_not=ln))
        else:
            data.append(DataPoint(i, val, outlier_prob=0, outlier_prob_not=0.0))
    return data


def data_to_json(data):
    return [{"idx": int(d.idx), "value": np.asarray(d.value).tolist(), "outlier_prob": float(d.outlier_prob),
             "outlier_prob_not": float(d.outlier_prob_not)} for d in data]


def data_from_json(js):
    from phyclone.data.base import DataPoint

    return [DataPoint(j["idx"], np.ascontiguousarray(np.array(j["value"], dtype=np.float64)),
                      outlier_prob=j["outlier_prob"], outlier_prob_not=j["outlier_prob_not"]) for j in js]


def clear_caches():
    from phyclone.smc.kernels.fully_adapted import _get_cached_full_proposal_dist
    from phyclone.smc.kernels.semi_adapted import _get_cached_semi_proposal_dist, get_cached_new_tree
    from phyclone.tree.utils import compute_log_S, _convolve_two_children

    for f in (_get_cached_full_proposal_dist, _get_cached_semi_proposal_dist, get_cached_new_tree, compute_log_S,
              _convolve_two_children):
        f.cache_clear()


class unmemoised(object):
    """Context: the recursion's memoised functions are replaced, wherever the tree code looks them up, by their undecorated
    originals - a rebuild inside it is a recomputation from scratch, whatever the process-wide caches hold."""
    SITES = {"compute_log_S": ["phyclone.tree.utils", "phyclone.tree.tree_node"], "_convolve_two_children": ["phyclone.tree.utils"]}

    def __enter__(self):
        import importlib

        self.saved = []
        for name, mods in self.SITES.items():
            for modname in mods:
                try:
                    mod = importlib.import_module(modname)
                except ImportError:
                    continue
                f = getattr(mod, name, None)
                if f is not None and hasattr(f, "__wrapped__"):
                    self.saved.append((mod, name, f))
                    setattr(mod, name, f.__wrapped__)
        return self

    def __exit__(self, *a):
        for mod, name, f in self.saved:
            setattr(mod, name, f)
        return False


def clear_proposal_caches():
    from phyclone.smc.kernels.fully_adapted import _get_cached_full_proposal_dist
    from phyclone.smc.kernels.semi_adapted import _get_cached_semi_proposal_dist, get_cached_new_tree

    for f in (_get_cached_full_proposal_dist, _get_cached_semi_proposal_dist, get_cached_new_tree):
        f.cache_clear()


def warm_up():
    """Import phyclone and trigger the numba compilations the samplers need, before forking workers."""
    import random

    from phyclone.tree import FSCRPDistribution, TreeJointDistribution
    from phyclone.utils.math import exp_normalize, log_normalize, log_sum_exp, log_factorial, log_binomial_coefficient

    r = random.Random(1)
    data = make_data(r, 2, samples=1, grid=4)
    f = Forest((frozenset([0]), frozenset([1])), (-1, 0), frozenset())
    t = build_tree(f, data)
    td = TreeJointDistribution(FSCRPDistribution(1.0))
    td.compute_both_log_p_and_log_p_one(t)
    exp_normalize(np.array([0.0, -1.0]))
    log_normalize(np.array([0.0, -1.0]))
    log_sum_exp(np.array([0.0, -1.0]))
    log_factorial(3)
    log_binomial_coefficient(3, 1)
    from phyclone.smc.utils import RootPermutationDistribution

    RootPermutationDistribution.log_pdf(t)

"""Exact transition matrices of the real samplers, by complete traversal of their random-outcome trees.

A configuration fixes data, alpha, proposal, particles, threshold, outlier setting, wiring and the
operation.  For every start state (every abstract forest over the data) all leaves of the outcome tree
of `sampler.sample_tree(start)` are visited under a choose-mode SimGenerator; leaf probability p and
returned tree T' give K[T, T'] += p.  Oracle: rows sum to 1, T' in the state space, max|pi K - pi| <= tol
with pi proportional to exp(tree_dist.log_p_one) evaluated by the real code on freshly built trees.
"""
import contextlib
import io
import math
import random

import numpy as np

from sim import bridge, models, runner
from sim.rng import ExploreBudget, HarnessUnsupported, SimGenerator, explore

TOL = 1e-9
OUTLIER_PROPOSAL_PROB = 0.1  # what run.setup_kernel uses whenever outlier_prob > 0


def default_config(**kw):
    c = dict(op="pg", wiring="lib", proposal="semi-adapted", n=2, samples=1, grid=4, style="gauss", data_seed=1,
             alpha=1.0, N=2, threshold=0.5, outlier_prob=0.0, subtree_prob=0.0, lib_outlier_proposal=OUTLIER_PROPOSAL_PROB)
    c.update(kw)
    return c


def config_key(c):
    k = {"op": c["op"], "outliers": bool(c["outlier_prob"] > 0)}
    if c["op"] in ("pg", "subtree", "sweep"):
        k["wiring"] = c["wiring"]
        k["proposal"] = c["proposal"]
    if c["op"] == "sweep":
        k["uses_subtree"] = bool(c.get("subtree_prob", 0) > 0)
    return k


_CTX = {}


def context(c):
    """Data, states, real trees and pi for a configuration (cached per process)."""
    key = repr(sorted((k, v) for k, v in c.items() if k in ("n", "samples", "grid", "style", "data_seed", "alpha", "outlier_prob", "hetero")))
    if key in _CTX:
        return _CTX[key]
    from phyclone.tree import FSCRPDistribution, TreeJointDistribution

    r = random.Random(c["data_seed"])
    data = bridge.make_data(r, c["n"], samples=c["samples"], grid=c["grid"], style=c["style"], outlier_prob=c["outlier_prob"],
                            hetero=bool(c.get("hetero")))
    forests = models.enumerate_forests(range(c["n"]), outliers=c["outlier_prob"] > 0)
    tree_dist = TreeJointDistribution(FSCRPDistribution(c["alpha"]))
    trees = [bridge.build_tree(f, data) for f in forests]
    canons = [models.canon(f) for f in forests]
    for t, cn in zip(trees, canons):
        assert bridge.canon_tree(t) == cn
    logpi = np.array([float(tree_dist.log_p_one(t)) for t in trees])
    index = {cn: i for i, cn in enumerate(canons)}
    ctx = dict(data=data, forests=forests, trees=trees, canons=canons, logpi=logpi, index=index)
    _CTX.clear()
    _CTX[key] = ctx
    return ctx


def kernel_class(proposal):
    from phyclone.smc.kernels import BootstrapKernel, FullyAdaptedKernel, SemiAdaptedKernel

    return {"bootstrap": BootstrapKernel, "semi-adapted": SemiAdaptedKernel, "fully-adapted": FullyAdaptedKernel}[proposal]


def make_operation(c, g, tree_dist, data):
    """Build the sampler exactly as the chosen wiring does and return f(tree) -> tree."""
    import phyclone.run as prun
    from phyclone.mcmc import ParticleGibbsSubtreeSampler, ParticleGibbsTreeSampler
    from phyclone.smc.utils import RootPermutationDistribution

    op = c["op"]
    if c["wiring"] == "run" or op in ("dp", "prg", "sweep"):
        kernel = prun.setup_kernel(c["outlier_prob"], c["proposal"], g, tree_dist)
        samplers = prun.setup_samplers(kernel, c["N"], c["outlier_prob"], c["threshold"], g, tree_dist)
        if op == "pg":
            return samplers.tree_sampler.sample_tree
        if op == "subtree":
            return samplers.subtree_sampler.sample_tree
        if op == "dp":
            return samplers.dp_sampler.sample_tree
        if op == "prg":
            return samplers.prg_sampler.sample_tree
        if op == "sweep":
            from phyclone.tree import Tree
            from phyclone.utils import Timer

            def sweep(tree):
                timer = Timer(func=lambda: 0.0)
                with contextlib.redirect_stdout(io.StringIO()):
                    res = prun._run_main_sampler(False, data, float("inf"), 1, c.get("n_dp", 1), c.get("n_prg", 1), 1000000,
                                                 samplers, ["s"], 1, timer, tree, tree_dist, 0, g, c.get("subtree_prob", 0.0))
                return Tree.from_dict(res["trace"][-1]["tree"])

            return sweep
        raise ValueError(op)
    # library wiring: kernel built with a permutation distribution
    opp = c.get("lib_outlier_proposal", OUTLIER_PROPOSAL_PROB) if c["outlier_prob"] > 0 else 0.0
    kernel = kernel_class(c["proposal"])(tree_dist, g, outlier_proposal_prob=opp, perm_dist=RootPermutationDistribution())
    if op == "pg":
        return ParticleGibbsTreeSampler(kernel, g, num_particles=c["N"], resample_threshold=c["threshold"]).sample_tree
    if op == "subtree":
        return ParticleGibbsSubtreeSampler(kernel, g, num_particles=c["N"], resample_threshold=c["threshold"]).sample_tree
    raise ValueError(op)


def row(item):
    """All leaves from one start state.  Returns dict(row={state idx: p}, leaves, exc={...}, outside=[...])."""
    c, si, max_leaves = item
    from phyclone.tree import FSCRPDistribution, TreeJointDistribution

    cx = context(c)
    start = cx["trees"][si]
    out = {}
    outside = {}
    excs = {}
    leaves = 0
    kinds = {}

    def leaf(g):
        bridge.clear_caches()
        tree_dist = TreeJointDistribution(FSCRPDistribution(c["alpha"]))
        try:
            f = make_operation(c, g, tree_dist, cx["data"])
            t = f(start.copy())
            return ("ok", bridge.canon_tree(t))
        except (HarnessUnsupported, ExploreBudget):
            raise
        except Exception as e:
            import traceback

            tb = traceback.extract_tb(e.__traceback__)
            where = ""
            for fr in tb:
                if "phyclone" in fr.filename:
                    where = "%s:%s" % (fr.filename.split("phyclone/")[-1], fr.name)
            return ("exc", "%s@%s" % (type(e).__name__, where), str(e)[:200])

    first_scripts = {}
    try:
        it = list(explore(leaf, max_leaves=max_leaves))
    except ExploreBudget:
        return {"budget": True, "si": si}
    for res, p, script in it:
        leaves += 1
        if res[0] == "ok":
            j = cx["index"].get(res[1])
            if j is None:
                k = models.canon_str(res[1])
                outside[k] = outside.get(k, 0.0) + p
                first_scripts.setdefault("outside:" + k, script)
            else:
                out[j] = out.get(j, 0.0) + p
        else:
            excs[res[1]] = [excs.get(res[1], [0.0])[0] + p, res[2]]
            first_scripts.setdefault("exc:" + res[1], script)
    return {"row": out, "leaves": leaves, "outside": outside, "exc": excs, "scripts": first_scripts, "si": si}


def analyse(c, rows):
    """rows: list of row() outputs in state order.  Returns (stats, problems[(key, detail, extra)])."""
    cx = context(c)
    n = len(cx["trees"])
    K = np.zeros((n, n))
    problems = []
    base = config_key(c)
    leaves = 0
    for r in rows:
        si = r["si"]
        leaves += r["leaves"]
        tot = math.fsum(r["row"].values()) + math.fsum(r["outside"].values()) + math.fsum(v[0] for v in r["exc"].values())
        if abs(tot - 1.0) > 1e-9:
            raise runner.HarnessError("row %d of %s sums to %r" % (si, c, tot))
        for j, p in r["row"].items():
            K[si, j] = p
        for k, p in r["outside"].items():
            problems.append((dict(base, sub="outside_support"),
                             "from %s the operation returns %s (probability %.3g), not a tree over the data" % (
                                 models.canon_str(cx["canons"][si]), k, p),
                             {"start": si, "script": r["scripts"].get("outside:" + k)}))
        for k, (p, msg) in r["exc"].items():
            problems.append((dict(base, sub="exception", exc=k),
                             "from %s: %s %s (probability %.3g)" % (models.canon_str(cx["canons"][si]), k, msg, p),
                             {"start": si, "script": r["scripts"].get("exc:" + k)}))
    lp = cx["logpi"]
    pi = np.exp(lp - lp.max())
    pi /= pi.sum()
    resid_vec = pi @ K - pi
    # rows with exceptions / leaks lose mass: only judge invariance when the kernel is stochastic
    complete = all(abs(K[i].sum() - 1.0) < 1e-9 for i in range(n))
    resid = float(np.max(np.abs(resid_vec)))
    if complete and resid > TOL:
        j = int(np.argmax(np.abs(resid_vec)))
        problems.append((dict(base, sub="invariance"),
                         "max|pi K - pi| = %.3e at state %s (pi=%.6g, (pi K)=%.6g); %d states" % (
                             resid, models.canon_str(cx["canons"][j]), pi[j], (pi @ K)[j], n),
                         {"column": j, "resid": resid}))
    moved = int(np.sum(K > 0) - np.sum(np.diag(K) > 0))
    return {"states": n, "leaves": leaves, "resid": resid, "complete": complete, "offdiag_transitions": moved}, problems


def permute_canon(cn, sigma):
    return (frozenset((frozenset(sigma[d] for d in own), frozenset(sigma[d] for d in cl)) for own, cl in cn[0]),
            frozenset(sigma[d] for d in cn[1]))


def symmetry_classes(c, cx):
    """With exchangeable data (style 'flat': every data point carries the same likelihood rows) relabelling the data points
    maps the kernel onto itself, so one start state per orbit of the symmetric group determines every row."""
    import itertools

    n = c["n"]
    perms = list(itertools.permutations(range(n)))
    rep_of = {}
    for i, cn in enumerate(cx["canons"]):
        if i in rep_of:
            continue
        for sg in perms:
            j = cx["index"][permute_canon(cn, sg)]
            if j not in rep_of:
                rep_of[j] = (i, sg)
    return rep_of


def expand_row(cx, rep_row, sigma, j):
    out = {}
    for k, p in rep_row["row"].items():
        out[cx["index"][permute_canon(cx["canons"][k], sigma)]] = p
    return {"row": out, "leaves": 0, "outside": dict(rep_row["outside"]), "exc": dict(rep_row["exc"]), "scripts": {}, "si": j}


def run_config(c, max_leaves_per_state=600000, deadline=None):
    cx = context(c)
    n_states = len(cx["trees"])
    if c.get("symmetric") and c["style"] == "flat":
        rep_of = symmetry_classes(c, cx)
        reps = sorted(set(r for r, _ in rep_of.values()))
        # spot check of the symmetry itself on up to three non-representative states
        others = [j for j in range(n_states) if rep_of[j][0] != j]
        rr = random.Random(c["data_seed"])
        spot = rr.sample(others, min(3, len(others)))
        items = [(c, si, max_leaves_per_state) for si in reps + spot]
        got = runner.pmap(row, items, timeout=3000, deadline=deadline)
        if any(r is None or r.get("budget") for r in got):
            return None, []
        by = {r["si"]: r for r in got}
        rows = []
        for j in range(n_states):
            i, sg = rep_of[j]
            rows.append(by[j] if j == i else expand_row(cx, by[i], sg, j))
        for j in spot:
            a, b = by[j]["row"], rows[j]["row"]
            if set(a) != set(b) or any(abs(a[k] - b[k]) > 1e-12 for k in a):
                return None, [({"sub": "symmetry_spot_check_failed"}, "row of state %d is not the relabelled row of its orbit representative" % j, {})]
        st, probs = analyse(c, rows)
        st["orbit_representatives"] = len(reps)
        return st, probs
    items = [(c, si, max_leaves_per_state) for si in range(n_states)]
    rows = runner.pmap(row, items, timeout=3000, deadline=deadline)
    if any(r is None or r.get("budget") for r in rows):
        return None, []  # outcome tree larger than the per-state leaf budget: configuration not judged
    return analyse(c, rows)


def witness_paths(c, column, top=3):
    """For an invariance violation: the heaviest single executions (start state, choice script, probability) that end in the
    witness column - each is one exactly repeatable run of the real sampler under the simulated generator."""
    cx = context(c)
    lp = cx["logpi"]
    pi = np.exp(lp - lp.max())
    pi /= pi.sum()
    out = []
    from phyclone.tree import FSCRPDistribution, TreeJointDistribution

    for si in range(len(cx["trees"])):
        best = None

        def leaf(g, si=si):
            bridge.clear_caches()
            td = TreeJointDistribution(FSCRPDistribution(c["alpha"]))
            f = make_operation(c, g, td, cx["data"])
            try:
                return cx["index"].get(bridge.canon_tree(f(cx["trees"][si].copy())))
            except Exception:
                return None

        try:
            for res, p, script in explore(leaf, max_leaves=200000):
                if res == column and (best is None or p > best[0]):
                    best = (p, script)
        except ExploreBudget:
            pass
        if best is not None:
            out.append({"start": models.canon_str(cx["canons"][si]), "start_index": si, "script": best[1], "probability": best[0],
                        "pi_start_times_p": float(pi[si] * best[0])})
    out.sort(key=lambda d: -d["pi_start_times_p"])
    return out[:top]


def replay_path(c, start_index, script):
    """Re-execute one recorded path; returns (end state string, probability)."""
    from phyclone.tree import FSCRPDistribution, TreeJointDistribution

    cx = context(c)
    g = SimGenerator(mode="choose", script=script)
    bridge.clear_caches()
    td = TreeJointDistribution(FSCRPDistribution(c["alpha"]))
    f = make_operation(c, g, td, cx["data"])
    t = f(cx["trees"][start_index].copy())
    return models.canon_str(bridge.canon_tree(t)), math.exp(g.log_prob)


def minimise(c, key, budget_s=120):
    """Greedy descent on the configuration while the same violation class persists."""
    import time

    t0 = time.time()
    cur = dict(c)

    def fails(cc):
        try:
            st, probs = run_config(cc, max_leaves_per_state=400000)
        except (ExploreBudget, runner.HarnessError):
            return False
        return st is not None and any(k == key for k, _, _ in probs)

    cands = [("n", [1, 2]), ("N", [2]), ("samples", [1]), ("grid", [3]), ("style", ["flat"]), ("alpha", [1.0]),
             ("threshold", [0.5]), ("subtree_prob", [0.0, 1.0])]
    for field, vals in cands:
        for v in vals:
            if time.time() - t0 > budget_s:
                return cur
            if field not in cur or cur[field] == v:
                continue
            if field == "n" and v >= cur["n"]:
                continue
            if field == "subtree_prob" and cur["op"] != "sweep":
                continue
            trial = dict(cur)
            trial[field] = v
            if fails(trial):
                cur = trial
                break
    return cur

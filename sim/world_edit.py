"""The edit-history world (C03, C06, C07, C15a).

One live phyclone Tree is driven through a seeded history of edits in the grammar the samplers use, with
persistence faults (restore from dict / pickle / gzip file / copy / TreeHolder) inserted at arbitrary points,
next to a reference abstract forest that receives the same abstract operations.  Operations refer to nodes
through the data points they hold, so a recorded history is its own replay file and survives ddmin."""
import gzip
import io
import math
import pickle
import random

import numpy as np

from sim import bridge, models, monitors
from sim.models import Forest

PERSIST = ["dict", "pickle", "gzip", "copy", "holder"]


# ------------------------------------------------------------------ model side (no phyclone)
class Model(object):
    """Mutable abstract forest: nodes keyed by an id, own data sets, parent ids (-1 = top level), outliers."""

    def __init__(self):
        self.own = {}
        self.parent = {}
        self.outliers = set()
        self._next = 0

    def copy(self):
        m = Model()
        m.own = {k: set(v) for k, v in self.own.items()}
        m.parent = dict(self.parent)
        m.outliers = set(self.outliers)
        m._next = self._next
        return m

    def node_of(self, dp):
        for k, v in self.own.items():
            if dp in v:
                return k
        return None

    def placed(self):
        s = set(self.outliers)
        for v in self.own.values():
            s |= v
        return s

    def roots(self):
        return [k for k, p in self.parent.items() if p == -1]

    def children(self, k):
        return [c for c, p in self.parent.items() if p == k]

    def subtree_nodes(self, k):
        out = [k]
        for c in self.children(k):
            out += self.subtree_nodes(c)
        return out

    def new_node(self, data, children, parent=-1):
        k = self._next
        self._next += 1
        self.own[k] = set(data)
        self.parent[k] = parent
        for c in children:
            self.parent[c] = k
        return k

    def forest(self):
        keys = sorted(self.own)
        pos = {k: i for i, k in enumerate(keys)}
        return Forest(tuple(frozenset(self.own[k]) for k in keys), tuple(-1 if self.parent[k] == -1 else pos[self.parent[k]] for k in keys),
                      frozenset(self.outliers))

    def canon(self):
        return models.canon(self.forest())


# ------------------------------------------------------------------ history generation
def gen_history(r, n, n_moves, p_fault, outliers=True, twin_prob=0.3):
    """A seeded history as a list of JSON-able ops.  State-dependent choices are expressed through data points and
    resolved against the state at execution time (ops that do not apply are skipped)."""
    ops = []
    order = list(range(n))
    r.shuffle(order)

    def maybe_fault():
        if r.random() < p_fault:
            ops.append(["persist", r.choice(PERSIST), r.random() < twin_prob])

    for dp in order:
        kind = r.choice(["new", "new", "add", "add", "out"] if outliers else ["new", "new", "add", "add"])
        ops.append(["place", dp, kind, r.randrange(1 << 30)])
        maybe_fault()
    if r.random() < 0.4 and n_moves >= 8:
        # the run loop's own rhythm: (subtree or whole-tree replacement) -> data-point moves -> prune-regraft -> relabel [-> trace image]
        for _ in range(max(2, n_moves // 4)):
            ops.append(["subtree", r.randrange(1 << 30)])
            maybe_fault()
            for _k in range(r.choice([0, 1, 2])):
                ops.append(["dpmove", r.randrange(1 << 30)])
            for _k in range(r.choice([1, 1, 2])):
                ops.append(["prg", r.randrange(1 << 30)])
            maybe_fault()
            ops.append(["relabel", r.randrange(1 << 30)])
            if r.random() < 0.3:
                ops.append(["rebuild_pair", r.randrange(1 << 30)])
            if r.random() < 0.5:
                ops.append(["persist", "dict", False])
        return ops
    for _ in range(n_moves):
        k = r.choice(["dpmove", "dpmove", "prg", "prg", "subtree", "relabel", "rebuild_pair", "alpha"])
        ops.append([k, r.randrange(1 << 30)])
        maybe_fault()
    return ops


class EditWorld(object):
    def __init__(self, cfg, oracles):
        """cfg: n, samples, grid, style, data_seed, outlier_prob, alpha.  oracles: subset of {'c03','c06','c07','c15'}"""
        from phyclone.tree import FSCRPDistribution, Tree, TreeJointDistribution

        self.cfg = cfg
        self.oracles = set(oracles)
        r = random.Random(cfg["data_seed"])
        self.data = bridge.make_data(r, cfg["n"], samples=cfg["samples"], grid=cfg["grid"], style=cfg["style"],
                                     outlier_prob=cfg["outlier_prob"], hetero=bool(cfg.get("hetero")), sample_levels=cfg.get("levels"))
        self.values = {d.idx: np.asarray(d.value) for d in self.data}
        self.out_prior = {d.idx: ((d.outlier_prob, d.outlier_prob_not) if d.outlier_prob != 0 else None) for d in self.data}
        self.grid_size = self.data[0].grid_size
        # from 1000 grid points the FFT convolution is used: rounding between two evaluation orders is ~1e-8 relative to the
        # row peak, not ~1e-15 (C02 promises agreement only above ~1e-6 of the peak there)
        self.atol = 1e-8 if self.grid_size[1] < 1000 else 1e-6
        self.vec_close = (lambda a, b: monitors.close(a, b, atol=self.atol)) if self.grid_size[1] < 1000 else monitors.close_above_floor
        self.tree_dist = TreeJointDistribution(FSCRPDistribution(cfg["alpha"]))
        self.alpha = cfg["alpha"]
        self.tree = Tree(self.grid_size)
        self.model = Model()
        self.twin = None  # un-restored original that keeps receiving the same operations
        self.images = []
        self.last_image = None
        self.problems = []  # (key, detail, op index)
        self.stats = {"ops": 0, "skipped": 0, "persist": {}, "probes": {}, "states": set(), "checks": 0, "max_rebuild_diff": 0.0,
                      "max_model_diff": 0.0}
        self.opi = -1
        self.Tree = Tree

    # -------------------------------------------------------------- helpers
    def probe(self, name):
        self.stats["probes"][name] = self.stats["probes"].get(name, 0) + 1

    def problem(self, key, detail):
        self.problems.append((key, detail, self.opi))

    def both(self, f, copy_based=False):
        """Apply f(tree) -> tree to the live tree and, in twin mode, to the twin."""
        old = self.tree
        snap = None
        if copy_based and ("c06" in self.oracles or "c07" in self.oracles):
            snap = (monitors.node_arrays(old), bridge.canon_tree(old))
        self.tree = f(self.tree)
        if snap is not None and self.tree is not old:
            # the move worked on copies: the tree it started from must be untouched (no arrays or lists shared with the copy)
            try:
                now = (monitors.node_arrays(old), bridge.canon_tree(old))
                same = now[1] == snap[1] and set(now[0]) == set(snap[0]) and all(
                    (snap[0][k][j] is None or monitors.close(snap[0][k][j], now[0][k][j], atol=0.0, rtol=0.0)) for k in snap[0] for j in (0, 1))
            except Exception:
                same = False
            if not same:
                self.problem({"sub": "aliasing", "what": "source_tree_changed_by_edit_of_copy"},
                             "op %d edited a copy, yet the tree it was copied from changed" % self.opi)
            self.probe("copy_based_move_checked_for_aliasing")
        if self.twin is not None:
            self.twin = f(self.twin)

    # -------------------------------------------------------------- operations
    def apply(self, op):
        kind = op[0]
        m = self.model
        if kind == "place":
            _, dp, how, s = op
            if dp in m.placed() or dp >= len(self.data):
                return False
            r = random.Random(s)
            roots = m.roots()
            if how == "add" and not roots:
                how = "new"
            if how == "out" and self.cfg["outlier_prob"] <= 0:
                how = "new"
            if how == "add":
                tgt = r.choice(sorted(roots))
                ref = min(m.own[tgt]) if m.own[tgt] else None
                m.own[tgt].add(dp)

                def f(t):
                    name = t.labels[ref]
                    t.add_data_point_to_node(self.data[dp], name)
                    return t
            elif how == "out":
                m.outliers.add(dp)

                def f(t):
                    t.add_data_point_to_outliers(self.data[dp])
                    return t
            else:
                k = r.randint(0, len(roots))
                kids = r.sample(sorted(roots), k)
                refs = [min(m.own[c]) for c in kids]
                m.new_node([dp], kids)
                two_step = r.random() < 0.3

                def f(t):
                    names = [t.labels[x] for x in refs]
                    if two_step:
                        node = t.create_root_node(names)
                        t.add_data_point_to_node(self.data[dp], node)
                    else:
                        t.create_root_node(children=names, data=[self.data[dp]])
                    return t
            self.both(f)
            return True
        if kind == "persist":
            _, how, twin = op
            if not m.placed():
                return False  # particles and trace entries always hold at least one data point
            self.stats["persist"][how] = self.stats["persist"].get(how, 0) + 1
            orig = self.tree
            if how == "holder" and not (orig.node_last_added_to == orig.outlier_node_name or orig.node_last_added_to in orig.nodes):
                # TreeHolder wraps particles only (trees grown by placements); after a graft the last-added name is not meaningful
                how = "dict"
            restored = self.restore(orig, how)
            if len(orig._graph.node_indices()) and max(orig._graph.node_indices()) + 1 != len(orig._graph.node_indices()):
                self.probe("persist_with_node_index_holes")
            if not m.own and m.outliers:
                self.probe("persist_outlier_only_tree")
            if "c15" in self.oracles:
                self.compare_pair(orig, restored, "roundtrip_" + how)
                if self.last_image is not None:
                    # the stored image is durable state: it is restored a second time now (a sibling that receives no edits)
                    # and again after every later operation - whatever happens to the first restored tree, the image must keep
                    # yielding the tree that was stored
                    sib = self.Tree.from_dict(self.last_image)
                    self.images = (self.images + [(how, self.last_image, bridge.canon_tree(orig), monitors.node_arrays(orig), sib)])[-2:]
            if twin and self.twin is None:
                self.twin = orig
                self.probe("twin_started")
            self.tree = restored
            return True
        if len(m.placed()) == 0:
            return False
        r = random.Random(op[1])
        if kind == "dpmove":
            cands = sorted(m.placed())
            dp = r.choice(cands)
            src = m.node_of(dp)
            if src is not None and len(m.own[src]) <= 1:
                return False  # never empty a clone
            targets = [k for k in sorted(m.own) if k != src]
            if self.cfg["outlier_prob"] > 0 and src is not None:
                targets.append("out")
            if not targets:
                return False
            tgt = r.choice(targets)
            ref = None if tgt == "out" else min(m.own[tgt])
            if src is None:
                m.outliers.discard(dp)
            else:
                m.own[src].discard(dp)
            if tgt == "out":
                m.outliers.add(dp)
            else:
                m.own[tgt].add(dp)

            def f(t):
                old = t.labels[dp]
                nt = t.copy()
                nt.remove_data_point_from_node(self.data[dp], old)
                if ref is None:
                    nt.add_data_point_to_outliers(self.data[dp])
                else:
                    nt.add_data_point_to_node(self.data[dp], nt.labels[ref])
                return nt
            self.both(f, copy_based=True)
            return True
        if kind == "prg":
            if len(m.own) <= 1:
                return False
            sr = r.choice(sorted(m.own))
            sub = set(m.subtree_nodes(sr))
            remaining = [k for k in sorted(m.own) if k not in sub]
            if not remaining:
                return False
            tgt = r.choice(remaining + [-1])
            ref_root = min(m.own[sr])
            ref_par = None if tgt == -1 else min(m.own[tgt])
            m.parent[sr] = tgt

            def f(t):
                pruned = t.copy()
                s = pruned.get_subtree(pruned.labels[ref_root])
                pruned.remove_subtree(s)
                nt = pruned.copy()
                nt.add_subtree(s, parent=None if ref_par is None else nt.labels[ref_par])
                nt.update()
                return nt
            self.both(f, copy_based=True)
            return True
        if kind == "subtree":
            if not m.own:
                return False
            child = r.choice(sorted(m.own))
            sr = m.parent[child]  # -1: the virtual root, i.e. the whole tree
            if sr == -1:
                region = sorted(m.own)
                par = -1
            else:
                region = m.subtree_nodes(sr)
                par = m.parent[sr]
            pts = set()
            for k in region:
                pts |= m.own[k]
            outl = set(m.outliers)
            ref_child = min(m.own[child])
            ref_par = None if par == -1 else min(m.own[par])
            for k in region:
                del m.own[k]
                del m.parent[k]
            m.outliers = set()
            # replacement forest over pts + outliers, grown Phase-A style
            plan = []
            allp = sorted(pts | outl)
            r.shuffle(allp)
            sub_m = Model()
            for dp in allp:
                how = r.choice(["new", "new", "add", "add", "out"] if self.cfg["outlier_prob"] > 0 else ["new", "add"])
                roots = sub_m.roots()
                if how == "add" and not roots:
                    how = "new"
                if how == "add":
                    tg = r.choice(sorted(roots))
                    plan.append(("add", dp, min(sub_m.own[tg])))
                    sub_m.own[tg].add(dp)
                elif how == "out":
                    plan.append(("out", dp, None))
                    sub_m.outliers.add(dp)
                else:
                    kids = r.sample(sorted(roots), r.randint(0, len(roots)))
                    plan.append(("new", dp, [min(sub_m.own[c]) for c in kids]))
                    sub_m.new_node([dp], kids)
            idmap = {}
            for k in sorted(sub_m.own):
                idmap[k] = m.new_node(sub_m.own[k], [])
            for k in sorted(sub_m.own):
                m.parent[idmap[k]] = par if sub_m.parent[k] == -1 else idmap[sub_m.parent[k]]
            m.outliers = set(sub_m.outliers)
            through_holder = r.random() < 0.5

            def f(t):
                sroot = t.get_parent(t.labels[ref_child])
                parent = t.get_parent(sroot)
                sub = t.get_subtree(sroot)
                t.remove_subtree(sub)
                for d in t.outliers:
                    t.remove_data_point_from_outliers(d)
                    sub.add_data_point_to_outliers(d)
                rep = self.Tree(self.grid_size)
                for how, dp, ref in plan:
                    if through_holder:
                        rep = self.Tree.from_dict(rep.to_dict())
                    if how == "add":
                        rep.add_data_point_to_node(self.data[dp], rep.labels[ref])
                    elif how == "out":
                        rep.add_data_point_to_outliers(self.data[dp])
                    else:
                        rep.create_root_node(children=[rep.labels[x] for x in ref], data=[self.data[dp]])
                nt = t.copy()
                nt.add_subtree(rep, parent=parent)
                for d in rep.outliers:
                    nt.add_data_point_to_outliers(d)
                nt.update()
                return nt
            self.both(f)
            return True
        if kind == "relabel":
            def f(t):
                t.relabel_nodes()
                return t
            self.both(f)
            return True
        if kind == "alpha":
            self.alpha = round(math.exp(r.uniform(math.log(0.01), math.log(100.0))), 6)
            self.tree_dist.prior.alpha = self.alpha
            return True
        if kind == "rebuild_pair":
            if "c03" in self.oracles:
                self.history_independence(r)
            return True
        raise ValueError(kind)

    def restore(self, t, how):
        from phyclone.smc.swarm import TreeHolder

        self.last_image = None
        if how == "dict":
            self.last_image = t.to_dict()
            return self.Tree.from_dict(self.last_image)
        if how == "pickle":
            self.last_image = pickle.loads(pickle.dumps(t.to_dict(), protocol=pickle.HIGHEST_PROTOCOL))
            return self.Tree.from_dict(self.last_image)
        if how == "gzip":
            buf = io.BytesIO()
            with gzip.GzipFile(fileobj=buf, mode="wb") as fh:
                pickle.dump({0: {"trace": [{"tree": t.to_dict()}]}}, fh)
            buf.seek(0)
            with gzip.GzipFile(fileobj=buf, mode="rb") as fh:
                d = pickle.load(fh)
            self.last_image = d[0]["trace"][0]["tree"]
            return self.Tree.from_dict(self.last_image)
        if how == "copy":
            return t.copy()
        if how == "holder":
            return TreeHolder(t, self.tree_dist, None).tree
        raise ValueError(how)

    # -------------------------------------------------------------- oracles
    def densities(self, t):
        lp = float(self.tree_dist.log_p(t))
        lp1 = float(self.tree_dist.log_p_one(t))
        b = self.tree_dist.compute_both_log_p_and_log_p_one(t)
        return lp, lp1, float(b[0]), float(b[1])

    def compare_pair(self, a, b, what):
        """C15a: b (restored) must be indistinguishable from a."""
        key = {"sub": what}
        try:
            if bridge.canon_tree(a) != bridge.canon_tree(b):
                self.problem(dict(key, aspect="clades"), "%s: canonical forms differ: %s vs %s" % (
                    what, models.canon_str(bridge.canon_tree(a)), models.canon_str(bridge.canon_tree(b))))
                return
            # Names must survive the round trip itself.  After LATER edits the twin and the restored tree may name the same
            # clones differently (relabel_nodes numbers clones in DFS order, which follows edge insertion order, and a restored
            # graph has its edges re-inserted in list order): names are identifiers, the statement's "edited further exactly
            # like the original" is judged on clades, outliers, per-clone vectors and densities.
            if what.startswith("roundtrip"):
                if a.labels != b.labels:
                    self.problem(dict(key, aspect="labels"), "%s: labels differ: %r vs %r" % (what, a.labels, b.labels))
                if sorted(map(str, a.nodes)) != sorted(map(str, b.nodes)):
                    self.problem(dict(key, aspect="nodes"), "%s: node lists differ: %r vs %r" % (what, a.nodes, b.nodes))
                if a.node_last_added_to != b.node_last_added_to:
                    self.problem(dict(key, aspect="last_added"), "%s: node_last_added_to %r vs %r" % (what, a.node_last_added_to, b.node_last_added_to))
            else:
                self.probe("twin_names_differ" if a.labels != b.labels else "twin_names_equal")
            na, nb = monitors.node_arrays(a), monitors.node_arrays(b)
            for k in na:
                if k not in nb:
                    self.problem(dict(key, aspect="arrays"), "%s: clone %r missing" % (what, k))
                    return
                for j in (0, 1):
                    if na[k][j] is not None and not self.vec_close(na[k][j], nb[k][j]):
                        self.problem(dict(key, aspect="arrays"), "%s: %s of clone %s differs by %.3g" % (
                            what, ["log_p", "log_r"][j], k if k == "root" else sorted(k), monitors.max_diff(na[k][j], nb[k][j])))
                        return
            da, db = self.densities(a), self.densities(b)
            if not monitors.close(da, db, atol=self.atol):
                self.problem(dict(key, aspect="density"), "%s: joint densities differ: %r vs %r" % (what, da, db))
            bad = monitors.wellformed(b)
            if bad:
                self.problem(dict(key, aspect="wellformed", code=bad[0][0]), "%s: restored tree ill-formed: %s" % (what, bad[0][1]))
        except Exception as e:
            self.problem(dict(key, aspect="exception", exc=type(e).__name__), "%s: %r" % (what, e))

    def history_independence(self, r):
        """Manufacture another live tree with the same abstract form (different build order / labels / restored)
        and one with a different form."""
        f = self.model.forest()
        order = list(range(len(f.own)))
        r.shuffle(order)
        other = bridge.build_tree(f, self.data, order=order)
        if r.random() < 0.5:
            other.relabel_nodes()
        if r.random() < 0.3:
            other = self.Tree.from_dict(other.to_dict())
        t = self.tree
        try:
            if not (t == other):
                self.problem({"sub": "eq_same_form"}, "two trees with the same clades and outliers compare unequal: %s" % models.canon_str(self.model.canon()))
            if hash(t) != hash(other):
                self.problem({"sub": "hash_same_form"}, "two trees with the same clades and outliers hash differently")
            da, db = self.densities(t), self.densities(other)
            if not monitors.close(da, db):
                self.problem({"sub": "history_dependence"}, "same tree, different build history: densities %r vs %r for %s" % (
                    da, db, models.canon_str(self.model.canon())))
            self.probe("same_form_pair")
            # a third construction history: part of the forest is built and EVALUATED, the rest is grafted on afterwards
            ch_, roots_ = models.children_of(f)
            if len(roots_) >= 2 or any(len(c) >= 1 for c in ch_):
                def sub_forest(top):
                    nodes = []

                    def rec(i):
                        nodes.append(i)
                        for c in ch_[i]:
                            rec(c)
                    rec(top)
                    pos = {n: k for k, n in enumerate(nodes)}
                    return Forest(tuple(f.own[n] for n in nodes), tuple(-1 if n == top else pos[f.parent[n]] for n in nodes), frozenset())
                graft_tops = []  # (top node, parent node or None)
                keep = set(range(len(f.own)))
                cand = [(rt, None) for rt in roots_[1:]] + [(c, i) for i in range(len(f.own)) for c in ch_[i]]
                r.shuffle(cand)
                for top, par in cand[: r.randint(1, max(1, len(cand)))]:
                    sub_nodes = set()

                    def rec2(i):
                        sub_nodes.add(i)
                        for c in ch_[i]:
                            rec2(c)
                    rec2(top)
                    if sub_nodes <= keep and (par is None or par in keep - sub_nodes):
                        keep -= sub_nodes
                        graft_tops.append((top, par))
                if graft_tops and keep:
                    kn = sorted(keep)
                    posk = {n: k for k, n in enumerate(kn)}
                    base = Forest(tuple(f.own[n] for n in kn), tuple(-1 if f.parent[n] == -1 else posk[f.parent[n]] for n in kn), f.outliers)
                    g = bridge.build_tree(base, self.data)
                    self.densities(g)  # the partially built tree is evaluated (and hashed) before the grafts
                    hash(g)
                    for top, par in graft_tops:
                        st = bridge.build_tree(sub_forest(top), self.data)
                        pname = None if par is None else g.labels[min(f.own[par])]
                        g.add_subtree(st, parent=pname)
                        if r.random() < 0.5:
                            self.densities(g)
                    if bridge.canon_tree(g) == self.model.canon():
                        dg = self.densities(g)
                        if not monitors.close(da, dg, atol=self.atol):
                            self.problem({"sub": "history_dependence", "how": "evaluated_then_grafted"},
                                         "same tree built by grafting onto an already evaluated tree: densities %r vs %r for %s" % (
                                             da, dg, models.canon_str(self.model.canon())))
                        if not (g == t) or hash(g) != hash(t):
                            self.problem({"sub": "eq_same_form", "how": "evaluated_then_grafted"}, "grafted construction compares / hashes unequal")
                        self.probe("same_form_pair_built_by_grafting")
            # a different form: move one point / change one parent in the model
            m2 = self.model.copy()
            changed = False
            ks = sorted(m2.own)
            if len(ks) >= 2:
                a, b = r.sample(ks, 2)
                if b not in m2.subtree_nodes(a) and m2.parent[a] != b:
                    m2.parent[a] = b
                    changed = True
            if not changed and m2.outliers and ks:
                d = min(m2.outliers)
                m2.outliers.discard(d)
                m2.own[ks[0]].add(d)
                changed = True
            if not changed and ks and self.cfg["outlier_prob"] > 0:
                big = [k for k in ks if len(m2.own[k]) > 1]
                if big:
                    d = min(m2.own[big[0]])
                    m2.own[big[0]].discard(d)
                    m2.outliers.add(d)
                    changed = True
            if changed and m2.canon() != self.model.canon():
                o2 = bridge.build_tree(m2.forest(), self.data)
                if t == o2:
                    self.problem({"sub": "eq_different_form"}, "trees with different clades/outliers compare equal: %s vs %s" % (
                        models.canon_str(self.model.canon()), models.canon_str(m2.canon())))
                self.probe("different_form_pair")
        except Exception as e:
            self.problem({"sub": "identity_exception", "exc": type(e).__name__}, repr(e))

    def check_state(self):
        """Run the enabled oracles on the current state."""
        self.stats["checks"] += 1
        t = self.tree
        m = self.model
        expected = m.placed()
        cn = m.canon()
        self.stats["states"].add(cn)
        if not m.own and m.outliers:
            self.probe("outlier_only_tree")
        if any(len(m.children(k)) >= 2 for k in m.own):
            self.probe("clone_with_two_or_more_children")
        if "c07" in self.oracles:
            for tt, who in ((t, "live"), (self.twin, "twin")):
                if tt is None:
                    continue
                bad = monitors.wellformed(tt, expected=expected)
                for code, msg in bad[:1]:
                    self.problem({"sub": "wellformed", "code": code}, "%s tree after op %d: %s" % (who, self.opi, msg))
            try:
                live_cn = bridge.canon_tree(t)
                if live_cn != cn:
                    self.problem({"sub": "refinement"}, "live tree %s but the reference forest is %s" % (models.canon_str(live_cn), models.canon_str(cn)))
            except Exception as e:
                self.problem({"sub": "bridge_exception", "exc": type(e).__name__}, repr(e))
        if "c06" in self.oracles or "c03" in self.oracles:
            try:
                live_cn = bridge.canon_tree(t)
            except Exception:
                live_cn = None
            if live_cn != cn:
                if "c07" not in self.oracles:
                    self.problem({"sub": "refinement"}, "live tree is not the tree the history builds: %s vs %s" % (
                        models.canon_str(live_cn) if live_cn else None, models.canon_str(cn)))
                return
        if "c06" in self.oracles:
            f = m.forest()
            with bridge.unmemoised() as um:
                # from scratch: no value comes out of the process-wide caches the history has filled
                fresh = bridge.build_tree(f, self.data)
                fresh.update()
                if um.saved:
                    self.probe("rebuild_bypassed_memoisation")
            na, nb = monitors.node_arrays(t), monitors.node_arrays(fresh)
            for k in nb:
                if k not in na:
                    self.problem({"sub": "stale", "what": "missing_clone"}, "live tree lacks clone %r" % (k,))
                    continue
                for j in (0, 1):
                    if nb[k][j] is None:
                        continue
                    d = monitors.max_diff(na[k][j], nb[k][j])
                    self.stats["max_rebuild_diff"] = max(self.stats["max_rebuild_diff"], d if d == d else 0.0)
                    if not self.vec_close(na[k][j], nb[k][j]):
                        self.problem({"sub": "stale", "what": ["log_p", "log_r"][j], "node": "root" if k == "root" else "clone"},
                                     "after op %d %s of %s differs from a fresh rebuild by %.3g (tree %s)" % (
                                         self.opi, ["log_p", "log_r"][j], "virtual root" if k == "root" else "clone %s" % sorted(k), d,
                                         models.canon_str(cn)))
            da, db = self.densities(t), self.densities(fresh)
            if not monitors.close(da, db, atol=self.atol):
                self.problem({"sub": "stale", "what": "joint_density"}, "joint densities %r differ from a fresh rebuild's %r" % (da, db))
        if "c03" in self.oracles:
            f = m.forest()
            try:
                d = self.densities(t)
            except Exception as e:
                self.problem({"sub": "density_exception", "exc": type(e).__name__}, repr(e))
                return
            want_m = models.fscrp_log_density(f, self.values, self.grid_size[1], self.alpha, self.out_prior, "marginal")
            want_1 = models.fscrp_log_density(f, self.values, self.grid_size[1], self.alpha, self.out_prior, "one")
            for name, got, want in (("log_p", d[0], want_m), ("log_p_one", d[1], want_1), ("both.log_p", d[2], want_m), ("both.log_p_one", d[3], want_1)):
                diff = abs(got - want) if math.isfinite(got) and math.isfinite(want) else (0.0 if got == want else float("inf"))
                self.stats["max_model_diff"] = max(self.stats["max_model_diff"], diff if diff == diff else 0.0)
                if not (diff <= self.atol + 1e-9 * abs(want)):
                    self.problem({"sub": "model", "which": name, "has_outliers": bool(m.outliers), "top_level_clones_ge2": len(m.roots()) >= 2},
                                 "%s = %.12g, FS-CRP reference model gives %.12g (alpha=%g, tree %s)" % (name, got, want, self.alpha, models.canon_str(cn)))
        if self.twin is not None and "c15" in self.oracles:
            self.compare_pair(self.twin, self.tree, "twin_after_edit")

    # -------------------------------------------------------------- driver
    def run(self, ops):
        for i, op in enumerate(ops):
            self.opi = i
            try:
                applied = self.apply(op)
            except Exception as e:
                import traceback

                tb = traceback.extract_tb(e.__traceback__)
                where = ""
                for fr in tb:
                    if "/phyclone/" in fr.filename:
                        where = "%s:%s" % (fr.filename.split("phyclone/")[-1], fr.name)
                self.problem({"sub": "exception", "exc": type(e).__name__, "where": where, "op": op[0]},
                             "op %d %r raised %s: %s" % (i, op, type(e).__name__, e))
                return
            if not applied:
                self.stats["skipped"] += 1
                continue
            self.stats["ops"] += 1
            try:
                self.check_state()
            except Exception as e:
                # the live tree is so damaged that reading it through the API / its arrays fails
                self.problem({"sub": "tree_unreadable", "exc": type(e).__name__}, "after op %d %r the oracles could not read the tree: %s: %s" % (
                    i, op, type(e).__name__, str(e)[:200]))
            if self.problems:
                return
            if self.images and op[0] != "persist":
                self.check_images(i, op)
                if self.problems:
                    return

    def check_images(self, i, op):
        for how, img, cn, arrs, sib in self.images:
            self.probe("stored_image_restored_again_after_later_edit")
            for what, get in (("stored_image_restored_again", lambda: self.Tree.from_dict(img)), ("sibling_restored_earlier", lambda: sib)):
                try:
                    t2 = get()
                    ok = bridge.canon_tree(t2) == cn and not monitors.wellformed(t2)
                    if ok:
                        now = monitors.node_arrays(t2)
                        ok = set(now) == set(arrs) and all(
                            (arrs[k][j] is None and now[k][j] is None) or (arrs[k][j] is not None and now[k][j] is not None and self.vec_close(arrs[k][j], now[k][j]))
                            for k in arrs for j in (0, 1))
                except Exception as e:
                    ok = False
                if not ok:
                    self.problem({"sub": "image_not_durable", "what": what, "how": how},
                                 "after op %d %r (applied to a tree restored from a %s image) %s does not give the tree that was stored" % (i, op, how, what.replace("_", " ")))
                    return


def run_history(cfg, ops, oracles):
    w = EditWorld(cfg, oracles)
    w.run(ops)
    st = dict(w.stats)
    st["states"] = len(w.stats["states"])
    st["state_set"] = w.stats["states"]
    return w.problems, st


def ddmin(ops, fails):
    """Classic delta debugging on the op list."""
    n = 2
    cur = list(ops)
    while len(cur) >= 2:
        chunk = max(1, len(cur) // n)
        reduced = False
        for i in range(0, len(cur), chunk):
            cand = cur[:i] + cur[i + chunk:]
            if cand and fails(cand):
                cur = cand
                n = max(n - 1, 2)
                reduced = True
                break
        if not reduced:
            if chunk == 1:
                break
            n = min(len(cur), n * 2)
    return cur

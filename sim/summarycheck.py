"""Shared machinery of C11, C12, C16: traces (from simulated multi-chain runs and synthetic corner traces), the three
summary commands run on their images, and the oracles over parsed outputs (trace_model)."""
import contextlib
import io
import itertools
import math
import os
import random

from sim import bridge, models, runner, trace_model as tm, world_pipeline as wp
from sim.models import Forest


# ------------------------------------------------------------------ traces
def base_run(seed, clustered=None, n_mut=None, n_samples=None, sample_scheme=None):
    """A real simulated run that supplies loaded data / samples / clusters (and a genuine sampled trace)."""
    spec = wp.spec_from_seed(seed, boundary=False, finite_clock=False, clustered=clustered, n_mut=n_mut, n_samples=n_samples, exotic=True, sample_scheme=sample_scheme)
    r = random.Random(seed ^ 0xABCDEF)
    spec["options"]["num_iters"] = r.choice([2, 5, 10])
    spec["options"]["grid_size"] = 11
    spec["options"]["outlier_prob"] = r.choice([0.0, 0.0, 0.05, 0.5])
    spec["options"]["num_chains"] = r.choice([1, 2, 3, 4])
    k = spec["options"]["num_chains"]
    order = list(range(k))
    r.shuffle(order)
    fin = list(range(k))
    r.shuffle(fin)
    spec["schedule"] = {"start_order": order, "finish_order": fin, "worker_of": [r.randrange(k) for _ in range(k)]}
    h = wp.run_pipeline(spec)
    return spec, h


def random_forest(r, n, allow_outliers=True):
    pts = list(range(n))
    r.shuffle(pts)
    n_out = 0
    if allow_outliers:
        n_out = r.choice([0, 0, 0, 1, 2, n]) if n > 1 else r.choice([0, 1])
        n_out = min(n_out, n)
    outl = pts[:n_out]
    rest = pts[n_out:]
    own = []
    while rest:
        k = min(len(rest), r.choice([1, 1, 2, 3]))
        own.append(frozenset(rest[:k]))
        rest = rest[k:]
    par = [(-1 if i == 0 else r.choice([-1] + list(range(i)))) for i in range(len(own))]
    return Forest(tuple(own), tuple(par), frozenset(outl))


def nested_majority_pool(n):
    """Forests whose majority clades nest so that a parent clade is the exact union of its children (empty consensus clone)."""
    pools = []
    if n >= 3:
        rest = frozenset(range(3, n))
        # supports 2/3 each for {0,1,2}, {0,1}, {2}: the consensus clone for {0,1,2} has no mutations of its own
        t1 = Forest((frozenset([0, 1]), frozenset([2])), (1, -1), rest)   # {2} above {0,1}
        t2 = Forest((frozenset([0, 1]), frozenset([2])), (-1, 0), rest)   # {0,1} above {2}
        t3 = Forest((frozenset([0, 1]), frozenset([2])), (-1, -1), rest)  # side by side
        pools.append([t1, t2, t3])
    if n >= 6:
        rest = frozenset(range(6, n))
        own = (frozenset([0, 1]), frozenset([2]), frozenset([3, 4]), frozenset([5]))
        # majority clades {0,1,2} = {0,1} + {2} and {3,4,5} = {3,4} + {5}: two empty consensus clones in one tree
        pools.append([Forest(own, (1, -1, 3, -1), rest), Forest(own, (-1, 0, -1, 2), rest), Forest(own, (-1, -1, -1, -1), rest)])
    return pools


def synthetic_results(seed, base, kind=None):
    """Assemble a trace directly from real Tree objects over the base run's loaded data."""
    from phyclone.tree import FSCRPDistribution, TreeJointDistribution

    r = random.Random(seed)
    res0 = base["results"][min(base["results"])]
    data = res0["data"]
    n = len(data)
    kind_ = r.choice(["pool", "pool", "ties", "all_outliers", "single_clone", "nested", "many", "spread", "singletons"])
    kind = kind or kind_
    pool = []
    if kind == "all_outliers":
        pool = [Forest((), (), frozenset(range(n)))] + [random_forest(r, n) for _ in range(r.choice([0, 1, 2]))]
    elif kind == "single_clone":
        pool = [Forest((frozenset(range(n)),), (-1,), frozenset())] + [random_forest(r, n) for _ in range(r.choice([0, 1]))]
    elif kind == "singletons":
        # every data point its own clone: as many clones as data points (two-digit node labels from 11 data points)
        for _ in range(r.choice([1, 2, 4])):
            pts = list(range(n))
            r.shuffle(pts)
            shape = r.choice(["chain", "star", "random"])
            par = [(-1 if i == 0 or shape == "star" else (i - 1 if shape == "chain" else r.choice([-1] + list(range(i))))) for i in range(n)]
            pool.append(Forest(tuple(frozenset([p]) for p in pts), tuple(par), frozenset()))
    elif kind == "nested" and nested_majority_pool(n):
        pool = r.choice(nested_majority_pool(n))
    elif kind == "many":
        pool = [random_forest(r, n) for _ in range(r.choice([11, 14, 20, 120]))]  # ten or more distinct topologies (ids t_10, t_11, ...)
    else:
        pool = [random_forest(r, n) for _ in range(r.choice([1, 2, 3, 5]))]
    k = r.choice([1, 2, 3, 4, 6])
    alpha = r.choice([0.5, 1.0, 3.0])
    td = TreeJointDistribution(FSCRPDistribution(alpha))
    results = {}
    chain_order = list(range(k))
    r.shuffle(chain_order)
    forms = set()
    for ch in chain_order:
        trace = []
        for i in range((r.choice([1, 2, 4, 8, 15]) if kind != "many" else r.choice([15, 25, 40, 90])) if kind != "nested" else r.choice([3, 6, 12])):
            if kind == "nested":
                f = pool[i % len(pool)]
            else:
                f = r.choice(pool)
            order = list(range(len(f.own)))
            r.shuffle(order)
            t = bridge.build_tree(f, data, order=order)
            if r.random() < 0.5:
                t.relabel_nodes()
            lp1 = float(td.log_p_one(t))
            if kind == "ties":
                lp1 = float(round(lp1))  # exact ties between different forms
            if kind == "spread":
                lp1 = lp1 * 60.0  # scores so far apart that weights underflow against each other
            trace.append({"iter": i, "time": 0.0, "alpha": alpha, "log_p_one": lp1, "tree": t.to_dict()})
            forms.add(models.canon(f))
        entry = {"data": data, "samples": res0["samples"], "trace": trace, "chain_num": ch}
        if "clusters" in res0:
            entry["clusters"] = res0["clusters"]
        results[ch] = entry
    return results, kind, len(forms)


def image_of(results):
    import phyclone.process_trace.process_trace as ppt

    fs = wp.SimFS()
    fs.manage("OUT")
    P = wp.PatchSet()
    fs.install(P, ppt)
    try:
        ppt.create_main_run_output(None, "OUT", results)
    finally:
        P.undo()
    if "OUT" not in fs.images and os.path.exists("OUT"):
        with open("OUT", "rb") as fh:
            img = fh.read()
        os.remove("OUT")
        return img
    return fs.images["OUT"]


def permuted(results, perm):
    keys = list(results.keys())
    return {keys[i]: results[keys[i]] for i in perm}


# ------------------------------------------------------------------ oracles
def name_index(results):
    res0 = results[min(results)]
    return {str(d.name): int(d.idx) for d in res0["data"]}, ("clusters" in res0 and res0["clusters"] is not None)


def all_mutations(results):
    res0 = results[min(results)]
    if res0.get("clusters") is not None:
        return sorted(set(res0["clusters"]["mutation_id"]))
    return sorted(str(d.name) for d in res0["data"])


def check_table(results, table_text, newick, what, allow_empty_clones=False):
    """C12 oracle on one (TABLE, NWK) pair.  Returns [(key, detail)]."""
    P = []
    rows = tm.parse_table(table_text)
    res0 = results[min(results)]
    samples = [str(s) for s in res0["samples"]]
    muts = all_mutations(results)
    seen = {}
    for row in rows:
        k = (row["mutation_id"], row["sample_id"])
        seen[k] = seen.get(k, 0) + 1
    want = set((m, s) for m in muts for s in samples)
    if set(seen) != want:
        missing = sorted(want - set(seen))[:2]
        extra = sorted(set(seen) - want)[:2]
        P.append(({"sub": "rows_missing_or_extra", "cmd": what}, "table rows: missing %r extra %r" % (missing, extra)))
    dup = [k for k, v in seen.items() if v > 1]
    if dup:
        P.append(({"sub": "row_duplicated", "cmd": what}, "row %r appears %d times" % (dup[0], seen[dup[0]])))
    try:
        par = tm.parse_newick(newick)
    except Exception as e:
        P.append(({"sub": "newick_unparsable", "cmd": what}, "%r: %r" % (newick, e)))
        return P
    labels = set(l for l in par if l != "root")
    per = {}
    clone_of_cluster = {}
    for row in rows:
        if any(v is None for v in row.values()) or None in row:
            P.append(({"sub": "row_truncated_or_ragged", "cmd": what}, "row %r" % (dict(row),)))
            return P
    for row in rows:
        cl = row["clone_id"]
        if cl != "-1" and cl not in labels:
            P.append(({"sub": "clone_not_in_tree", "cmd": what}, "clone_id %r is not a node of %r" % (cl, newick.strip())))
            break
        try:
            ccf, cp = float(row["ccf"]), float(row["clonal_prev"])
        except (ValueError, TypeError):
            P.append(({"sub": "value_unparsable", "cmd": what}, "row %r" % (row,)))
            break
        if cl == "-1":
            if ccf != -1 or cp != -1:
                P.append(({"sub": "outlier_values", "cmd": what}, "outlier row has ccf=%r clonal_prev=%r" % (ccf, cp)))
                break
        else:
            if not (0.0 <= ccf <= 1.0) or not (-1e-12 <= cp <= 1.0 + 1e-12):
                P.append(({"sub": "value_out_of_range", "cmd": what}, "clone %s sample %s ccf=%r clonal_prev=%r" % (cl, row["sample_id"], ccf, cp)))
                break
        key = (cl, row["sample_id"])
        if key in per and per[key] != (ccf, cp):
            P.append(({"sub": "values_not_constant_per_clone", "cmd": what}, "clone %s sample %s has %r and %r" % (cl, row["sample_id"], per[key], (ccf, cp))))
            break
        per[key] = (ccf, cp)
        if "cluster_id" in row and row["cluster_id"] not in (None, ""):
            c = row["cluster_id"]
            if c in clone_of_cluster and clone_of_cluster[c] != cl:
                P.append(({"sub": "cluster_split", "cmd": what}, "cluster %s is in clones %s and %s" % (c, clone_of_cluster[c], cl)))
                break
            clone_of_cluster[c] = cl
    return P


def check_table_values(results, table_text, newick, what):
    """The table's per-sample CCFs must be feasible on the written tree and attain, sample by sample, the same total
    log-likelihood as the repository's own MAP-CCF routine on a tree of the same form (tie-robust: equal likelihood, not equal
    indices).  Catches values that belong to another sample or another clone."""
    from phyclone.process_trace.map import get_map_node_ccfs_and_clonal_prev_dicts

    P = []
    try:
        f = output_forest(results, table_text, newick)
    except Exception:
        return P
    res0 = results[min(results)]
    data = res0["data"]
    samples = [str(x) for x in res0["samples"]]
    if not f.own:
        return P
    rows = tm.parse_table(table_text)
    par = tm.parse_newick(newick)
    labels = [l for l in par if l != "root"]
    idx, clustered = name_index(results)
    own_of_label = {}
    for row in rows:
        name = str(row["cluster_id"]) if clustered else row["mutation_id"]
        if row["clone_id"] != "-1":
            own_of_label.setdefault(row["clone_id"], set()).add(idx[name])
    tree = bridge.build_tree(f, data)
    ccfs, prev = get_map_node_ccfs_and_clonal_prev_dicts(tree)
    G = data[0].value.shape[1]
    arrays = monitors_node_logp(tree)
    ch, roots = models.children_of(f)
    tab = {}
    for row in rows:
        if row["clone_id"] != "-1":
            try:
                tab[(row["clone_id"], row["sample_id"])] = float(row["ccf"])
            except (ValueError, TypeError):
                return P  # reported by check_table
    label_of_node = {}
    for i, own in enumerate(f.own):
        for l, o in own_of_label.items():
            if frozenset(o) == own and own:
                label_of_node[i] = l
    for si, sname in enumerate(samples):
        tot_tab = 0.0
        tot_ref = 0.0
        vals = {}
        usable = True
        for i, own in enumerate(f.own):
            if not own:
                usable = False  # clones without mutations have no table rows; nothing to compare for this tree
                break
            l = label_of_node.get(i)
            if l is None or (l, sname) not in tab:
                usable = False
                break
            v = tab[(l, sname)]
            k = int(round(v * (G - 1)))
            if abs(k / (G - 1) - v) > 1e-9:
                P.append(({"sub": "ccf_not_on_grid", "cmd": what}, "ccf %r of clone %s sample %s is not a grid value" % (v, l, sname)))
                usable = False
                break
            vals[i] = v
            tot_tab += float(arrays[own][si, k])
            name = tree.labels[min(own)]
            kr = int(round(float(ccfs[name][si]) * (G - 1)))
            tot_ref += float(arrays[own][si, kr])
        if not usable:
            continue
        feasible = all(vals[i] + 1e-9 >= sum(vals[c] for c in ch[i]) for i in vals) and sum(vals[r] for r in roots) <= 1 + 1e-9
        if not feasible:
            P.append(({"sub": "ccf_infeasible_on_tree", "cmd": what}, "sample %s: a clone's ccf is below the sum of its children's, or top-level clones exceed 1" % sname))
        elif abs(tot_tab - tot_ref) > 1e-7 * max(1.0, abs(tot_ref)):
            P.append(({"sub": "ccf_not_that_of_the_clone", "cmd": what},
                      "sample %s: the table's CCFs give total log-likelihood %.9g on the written tree, the tree's own MAP CCFs give %.9g" % (sname, tot_tab, tot_ref)))
    return P


def monitors_node_logp(tree):
    from sim import monitors

    return {k: v[0] for k, v in monitors.node_arrays(tree).items() if k != "root"}


def output_forest(results, table_text, newick):
    idx, clustered = name_index(results)
    rows = tm.parse_table(table_text)
    return tm.forest_from_outputs(rows, newick, idx, clustered)


def check_map(results, out, map_type):
    P = []
    cmd = "map:" + map_type
    if not out["ok"]:
        return [({"sub": "command_failed", "cmd": cmd, "exc": out["exception"]["type"], "where": out["exception"]["where"]},
                 "%s raised %s: %s" % (cmd, out["exception"]["type"], out["exception"]["msg"]))], None
    try:
        f = output_forest(results, out["table"], out["newick"])
    except Exception as e:
        return [({"sub": "output_unparsable", "cmd": cmd}, repr(e))], None
    got = models.canon(f)
    groups = tm.group_by_form(results)
    if map_type == "joint-likelihood":
        best = max(e["log_p_one"] for _, _, e in tm.entries(results))
        ok = [c for c, lst in groups.items() if any(e["log_p_one"] == best for _, _, e in lst)]
        if got not in ok:
            mine = max([e["log_p_one"] for _, _, e in groups.get(got, [])] or [float("nan")])
            P.append(({"sub": "map_not_maximum", "cmd": cmd}, "MAP output %s has best recorded log_p_one %r, the trace maximum is %r" % (models.canon_str(got), mine, best)))
    else:
        top = max(len(v) for v in groups.values())
        if len(groups.get(got, [])) != top:
            P.append(({"sub": "map_not_most_frequent", "cmd": cmd}, "frequency MAP output %s occurs %d times, the most frequent topology %d times" % (
                models.canon_str(got), len(groups.get(got, [])), top)))
    return P, got


def check_topology(results, out, top_trees):
    P = []
    cmd = "topology-report"
    if not out["ok"]:
        return [({"sub": "command_failed", "cmd": cmd, "exc": out["exception"]["type"], "where": out["exception"]["where"]},
                 "%s raised %s: %s" % (cmd, out["exception"]["type"], out["exception"]["msg"]))]
    rows = tm.parse_table(out["table"])
    groups = tm.group_by_form(results)
    n_entries = sum(len(v) for v in groups.values())
    seen_forms = {}
    prev = None
    tot = 0
    for rank, row in enumerate(rows):
        if row["topology_id"] != "t_%d" % rank:
            P.append(({"sub": "topology_id", "cmd": cmd}, "row %d has id %r" % (rank, row["topology_id"])))
        ch, it = int(row["chain_num"]), int(row["iter"])
        try:
            e = results[ch]["trace"][it]
        except Exception:
            P.append(({"sub": "pointer_invalid", "cmd": cmd}, "row %d points to chain %d entry %d which does not exist" % (rank, ch, it)))
            continue
        form = models.canon(tm.forest_from_image(e["tree"]))
        if form in seen_forms:
            P.append(({"sub": "topology_listed_twice", "cmd": cmd}, "rows %d and %d are the same tree %s" % (seen_forms[form], rank, models.canon_str(form))))
        seen_forms[form] = rank
        lst = groups[form]
        cnt = int(row["count"])
        tot += cnt
        if cnt != len(lst):
            P.append(({"sub": "count", "cmd": cmd}, "row %d count %d, the trace holds %d entries of %s" % (rank, cnt, len(lst), models.canon_str(form))))
        score = float(row["log_p_joint_max"])
        best = max(x["log_p_one"] for _, _, x in lst)
        if not (abs(score - best) <= 1e-9 * max(1.0, abs(best))):
            P.append(({"sub": "score_not_max", "cmd": cmd}, "row %d reports score %r, the maximum over its entries is %r" % (rank, score, best)))
        if not (abs(e["log_p_one"] - best) <= 1e-9 * max(1.0, abs(best))):
            P.append(({"sub": "pointer_not_attaining", "cmd": cmd}, "row %d points to an entry with log_p_one %r, maximum is %r" % (rank, e["log_p_one"], best)))
        if prev is not None and score > prev + 1e-12:
            P.append(({"sub": "rank_order", "cmd": cmd}, "row %d has a higher score than row %d" % (rank, rank - 1)))
        prev = score
    if len(rows) != len(groups):
        P.append(({"sub": "row_count", "cmd": cmd}, "%d rows for %d distinct trees" % (len(rows), len(groups))))
    if tot != n_entries:
        P.append(({"sub": "counts_sum", "cmd": cmd}, "counts sum to %d, the trace has %d entries" % (tot, n_entries)))
    if out.get("archive") is not None:
        k = len(rows) if top_trees is None else min(top_trees, len(rows))
        dirs = sorted(set(n.split("/")[0] for n in out["archive"]))
        want = sorted("t_%d" % i for i in range(k))
        if dirs != want:
            P.append(({"sub": "archive_members", "cmd": cmd}, "archive holds %r, expected %r" % (dirs, want)))
        for d in dirs:
            tab = out["archive"].get("%s/%s_results_table.tsv" % (d, d))
            nwk = out["archive"].get("%s/%s.nwk" % (d, d))
            if tab is None or nwk is None:
                P.append(({"sub": "archive_member_incomplete", "cmd": cmd}, "%s lacks its table or tree" % d))
                continue
            rank = int(d[2:])
            if rank < len(rows):
                row = rows[rank]
                e = results[int(row["chain_num"])]["trace"][int(row["iter"])]
                form = models.canon(tm.forest_from_image(e["tree"]))
                try:
                    got = models.canon(output_forest(results, tab, nwk))
                    if got != form:
                        P.append(({"sub": "archive_tree_mismatch", "cmd": cmd}, "%s holds %s, its row is %s" % (d, models.canon_str(got), models.canon_str(form))))
                except Exception as ex:
                    P.append(({"sub": "archive_unparsable", "cmd": cmd}, "%s: %r" % (d, ex)))
    return P


def check_consensus(results, out, weight_type, threshold):
    P = []
    cmd = "consensus:" + weight_type
    sup, groups = tm.clade_supports(results, weighted=(weight_type != "counts"))
    if any(abs(v - threshold) <= 1e-9 for v in sup.values()):
        return [], "skipped_support_at_threshold"
    want = set(c for c, v in sup.items() if v > threshold)
    klass = "nested_union" if any(
        sum(1 for d in want if d < c and not any(d < e < c for e in want)) >= 2 and
        frozenset().union(*[d for d in want if d < c]) == c for c in want) else "plain"
    if not out["ok"]:
        return [({"sub": "command_failed", "cmd": cmd, "exc": out["exception"]["type"], "where": out["exception"]["where"], "class": klass},
                 "%s raised %s: %s" % (cmd, out["exception"]["type"], out["exception"]["msg"]))], klass
    try:
        f = output_forest(results, out["table"], out["newick"])
    except Exception as e:
        return [({"sub": "output_unparsable", "cmd": cmd, "class": klass}, repr(e))], klass
    cl = models.clades_of(f)
    got = set(cl)
    if len(cl) != len(got):
        P.append(({"sub": "duplicate_clade", "cmd": cmd, "class": klass}, "two consensus clones span the same clade"))
    if got != want:
        P.append(({"sub": "clade_set", "cmd": cmd, "class": klass, "n_empty_clones_expected_ge2": sum(
            1 for c in want if frozenset().union(*([d for d in want if d < c] or [frozenset()])) == c) >= 2},
                  "consensus clades %r, clades with support > %g are %r" % (sorted(map(sorted, got)), threshold, sorted(map(sorted, want)))))
    n = len(results[min(results)]["data"])
    covered = set().union(*want) if want else set()
    if set(f.outliers) != set(range(n)) - covered:
        P.append(({"sub": "uncovered_not_outliers", "cmd": cmd, "class": klass}, "clone -1 holds %r, uncovered data points are %r" % (sorted(f.outliers), sorted(set(range(n)) - covered))))
    return P, klass


# ------------------------------------------------------------------ one trace, all commands
def summary_task(item):
    seed, prop = item
    r = random.Random(seed)
    clustered = r.random() < 0.35
    n_mut = r.choice([1, 2, 3, 4, 5, 6, 6, 8, 11, 12, 14, 18])
    n_samples = r.choice([1, 1, 2, 3, 5])
    wide = r.random() < 0.12  # correlated profile: many clones (two-digit node labels) x several numeric sample ids (time points)
    if wide:
        clustered, n_mut, n_samples = False, r.choice([12, 13, 14, 18]), r.choice([2, 3, 5])
    spec, base = base_run(runner.hash64(seed, "base") % (1 << 62), clustered=clustered, n_mut=n_mut, n_samples=n_samples, sample_scheme="num" if wide else None)
    out = {"seed": seed, "problems": [], "probes": {}, "kind": None, "n_forms": 0, "chains": 0, "entries": 0, "commands": 0, "skipped": None,
           "sched": dict(base["stats"])}
    if base["results"] is None:
        out["skipped"] = "base run raised %r" % (base["exception"],)
        return out
    if r.random() < 0.35:
        results, kind = base["results"], "sampled"
        nforms = len(tm.group_by_form(results))
    else:
        results, kind, nforms = synthetic_results(seed, base, kind="singletons" if wide and r.random() < 0.7 else None)
    out["kind"] = kind
    out["n_forms"] = nforms
    out["chains"] = len(results)
    out["entries"] = sum(len(v["trace"]) for v in results.values())
    keys = list(results.keys())
    perms = list(itertools.permutations(range(len(keys))))
    r.shuffle(perms)
    perms = perms[: (3 if prop != "C11" else 6)]
    if tuple(range(len(keys))) not in perms:
        perms[0] = tuple(range(len(keys)))
    probs = []

    def probe(n):
        out["probes"][n] = out["probes"].get(n, 0) + 1

    groups = tm.group_by_form(results)
    if any((not c[0]) and c[1] for c in groups):
        probe("trace_has_all_outlier_tree")
    if any(len(c[0]) == 1 and not c[1] for c in groups):
        probe("trace_has_single_clone_tree")
    if any(c[0] and c[1] for c in groups):
        probe("trace_has_tree_with_clones_and_outliers")
    if "clusters" in results[keys[0]] and results[keys[0]]["clusters"] is not None:
        probe("clustered_input")
    if len(set(e["log_p_one"] for _, _, e in tm.entries(results))) < out["entries"]:
        probe("tied_scores")
    for perm in perms:
        res_p = permuted(results, perm)
        if list(res_p.keys()) != sorted(res_p.keys()):
            probe("chains_inserted_out_of_order")
        img = image_of(res_p)
        if prop in ("C11", "C12"):
            for mt in ("joint-likelihood", "frequency"):
                o = wp.run_summaries(img, ("map", mt))
                out["commands"] += 1
                P, got = check_map(res_p, o, mt)
                if prop == "C11":
                    probs += P
                if prop == "C12":
                    probs += [p for p in P if p[0]["sub"] == "command_failed"]
                    if o["ok"]:
                        probs += check_table(res_p, o["table"], o["newick"], "map")
                        probs += check_table_values(res_p, o["table"], o["newick"], "map")
            top = r.choice([None, 1, 2, 3, 5, 11, 27, 100])
            o = wp.run_summaries(img, ("topology", top, True))
            out["commands"] += 1
            if prop == "C11":
                probs += check_topology(res_p, o, top)
            if prop == "C12":
                if not o["ok"]:
                    probs.append(({"sub": "command_failed", "cmd": "topology-report", "exc": o["exception"]["type"], "where": o["exception"]["where"]},
                                  "topology-report raised %s: %s" % (o["exception"]["type"], o["exception"]["msg"])))
                for name, txt in sorted((o.get("archive") or {}).items()):
                    if name.endswith("_results_table.tsv"):
                        d = name.split("/")[0]
                        nwk = o["archive"].get("%s/%s.nwk" % (d, d))
                        if nwk is not None:
                            probs += check_table(res_p, txt, nwk, "topology-archive")
                            probs += check_table_values(res_p, txt, nwk, "topology-archive")
        if prop in ("C16", "C12"):
            for wt in ("counts", "joint-likelihood"):
                thr = r.choice([0.5, 0.5, 0.6, 0.75, 0.9, 1.0, round(r.uniform(0.5, 1.0), 3)])
                o = wp.run_summaries(img, ("consensus", wt, thr))
                out["commands"] += 1
                P, klass = check_consensus(res_p, o, wt, thr)
                if klass == "nested_union":
                    probe("consensus_with_empty_clone")
                if klass == "skipped_support_at_threshold":
                    probe("skipped_support_at_threshold")
                if prop == "C16":
                    probs += P
                if prop == "C12":
                    probs += [p for p in P if p[0]["sub"] == "command_failed"]
                    if o["ok"]:
                        probs += check_table(res_p, o["table"], o["newick"], "consensus")
                        probs += check_table_values(res_p, o["table"], o["newick"], "consensus")
    seen = set()
    for key, detail in probs:
        ks = repr(sorted(key.items()))
        if ks not in seen:
            seen.add(ks)
            out["problems"].append((key, detail))
    return out


def run_summary_check(ctx, prop, n):
    wp.warm_up()
    items = [(ctx.sub(("tr", i)), prop) for i in range(n)]
    res = runner.pmap(summary_task, items, timeout=1200)
    sig = set()
    cmds = 0
    kinds = {}
    for out in res:
        if out["skipped"]:
            ctx.probe("base_run_raised_left_to_C19")
            continue
        cmds += out["commands"]
        kinds[out["kind"]] = kinds.get(out["kind"], 0) + 1
        sig.add((out["kind"], out["n_forms"], out["chains"], out["entries"]))
        for k, v in out["probes"].items():
            ctx.probe(k, v)
        ctx.merge_counts("fault_kinds_fired", {"sched." + k: v for k, v in out["sched"].items()})
        for key, detail in out["problems"]:
            ctx.violation(key, detail + " | trace seed %d (%s, %d chains, %d entries)" % (out["seed"], out["kind"], out["chains"], out["entries"]),
                          {"seed": out["seed"], "prop": prop, "key": key})
    n_skipped = sum(1 for o in res if o["skipped"])
    if n_skipped > 0.25 * len(res):
        ctx.cannot_judge("%d of %d base runs raised before any trace existed; the summary commands cannot be judged (see C19)" % (n_skipped, len(res)))
    ctx.cov["evaluations"] = len(res)
    ctx.cov["distinct_nontrivial"] = len(sig)
    ctx.cov["summary_commands_run"] = cmds
    ctx.cov["trace_kinds"] = kinds
    for out in res[:3]:
        ctx.sample({"trace_seed": out["seed"], "kind": out["kind"], "chains": out["chains"], "entries": out["entries"], "distinct_trees": out["n_forms"]})
    ctx.cov["components"] = {"real": ["process_trace.write_map_results / write_topology_report / write_consensus_results / create_main_run_output",
                                      "process_trace.consensus", "process_trace.map (CCF table)", "Tree.from_dict / __eq__ / __hash__ / to_newick_string",
                                      "load_data + run (traces of kind 'sampled' and the data of all traces)"],
                             "stand_in": ["chain executor -> SimExecutor (completion order decides dict order of the trace)", "trace file -> SimFS image",
                                          "synthetic traces: entries assembled by the harness from real Tree objects (input generation, labelled as such)"]}
    ctx.assumptions += ["apart from the chain completion order no fault kind applies to these commands; simulation supplies the traces and the order"]
    return res


def replay_summary(ctx, obj):
    wp.warm_up()
    out = summary_task((obj["seed"], obj["prop"]))
    for key, detail in out["problems"]:
        if key == obj["key"]:
            ctx.violation(key, detail, obj)
    ctx.cov["evaluations"] = 1

"""Sampled invariance beyond the traversable sizes (C01, C04).

For five data points with informative, all-different likelihood rows the state space (2 992 trees, 4 513 with outliers) is
still enumerable, so the exact posterior pi is known, but the outcome tree of one update is far too large to traverse.
Instead: M start trees are drawn from pi with the harness PRNG, the real update is applied once to each under a seeded
record-mode generator (bit-for-bit what numpy would draw), and the distribution of the results over shape classes
(the unlabelled shape of the tree with clone sizes, and the number of outliers) is compared with pi by a chi-square statistic.  The run is a
pure function of VERIF_SEED.  The alarm threshold sits at a tail probability below 1e-9, so this can refute invariance
(biases of a few percent in some class) and never confirms it; it is reported separately from the exact kernels."""
import math
import random

import numpy as np

from sim import bridge, kernelmat, models, runner
from sim.rng import SimGenerator


def tree_class(cn):
    """Unlabelled shape of a tree: nested (clone size, sorted child shapes) plus the number of outliers - the orbit of the
    tree under relabelling of the data points."""
    nodes, outl = cn
    clades = [(own, cl) for own, cl in nodes]

    def children(cl):
        below = [c for c in clades if c[1] < cl]
        return [c for c in below if not any(c[1] < d[1] < cl for d in below)]

    def sig(c):
        return (len(c[0]), tuple(sorted(sig(k) for k in children(c[1]))))

    tops = [c for c in clades if not any(c[1] < d[1] for d in clades)]
    return (tuple(sorted(sig(c) for c in tops)), len(outl))


def count_clones(tops):
    return sum(1 + count_clones(kids) for _, kids in tops)


def chunk_task(item):
    c, pairs = item
    from phyclone.tree import FSCRPDistribution, TreeJointDistribution

    cx = kernelmat.context(c)
    out = []
    for si, seed in pairs:
        g = SimGenerator(mode="record", seed=seed, max_draws=2000000)
        td = TreeJointDistribution(FSCRPDistribution(c["alpha"]))
        bridge.clear_proposal_caches()
        f = kernelmat.make_operation(c, g, td, cx["data"])
        try:
            t = f(cx["trees"][si].copy())
            out.append(cx["index"].get(bridge.canon_tree(t), -1))
        except Exception as e:
            out.append(-2)
    return out


def run_stat(c, M, seed):
    """Returns (stats, problems)."""
    cx = kernelmat.context(c)
    lp = cx["logpi"]
    pi = np.exp(lp - lp.max())
    pi /= pi.sum()
    r = random.Random(seed)
    cum = np.cumsum(pi)
    starts = [int(np.searchsorted(cum, r.random())) for _ in range(M)]
    starts = [min(s, len(pi) - 1) for s in starts]
    pairs = [(s, r.randrange(1 << 62)) for s in starts]
    size = max(50, M // (4 * runner.n_workers()))
    chunks = [(c, pairs[i:i + size]) for i in range(0, M, size)]
    res = [x for ch in runner.pmap(chunk_task, chunks, timeout=2400) for x in ch]
    problems = []
    key = kernelmat.config_key(c)
    n_exc = sum(1 for x in res if x == -2)
    n_out = sum(1 for x in res if x == -1)
    if n_exc:
        problems.append((dict(key, sub="exception_in_sampled_update"), "%d of %d sampled updates raised" % (n_exc, M), {}))
    if n_out:
        problems.append((dict(key, sub="outside_support_in_sampled_update"), "%d of %d sampled updates returned a tree outside the state space" % (n_out, M), {}))
    classes = {}
    for i, cn in enumerate(cx["canons"]):
        classes.setdefault(tree_class(cn), []).append(i)
    exp = {k: float(sum(pi[i] for i in v)) * M for k, v in classes.items()}
    cls_of = {}
    for k, v in classes.items():
        for i in v:
            cls_of[i] = k
    obs = {k: 0 for k in classes}
    for x in res:
        if x >= 0:
            obs[cls_of[x]] += 1
    # merge sparse classes
    big = {k: e for k, e in exp.items() if e >= 25}
    small = [k for k in exp if k not in big]
    chi = 0.0
    df = -1
    for k, e in big.items():
        chi += (obs[k] - e) ** 2 / e
        df += 1
    if small:
        e = sum(exp[k] for k in small)
        o = sum(obs[k] for k in small)
        if e > 0:
            chi += (o - e) ** 2 / e
            df += 1
    df = max(df, 1)
    # Wilson-Hilferty bound for the 1e-9 upper tail of chi-square(df): z = 6.0
    z = 6.0
    thr = df * (1 - 2.0 / (9 * df) + z * math.sqrt(2.0 / (9 * df))) ** 3
    worst = max(big, key=lambda k: abs(obs[k] - big[k]) / math.sqrt(big[k])) if big else None
    stats = {"M": M, "states": len(pi), "classes": len(exp), "chi2": round(chi, 2), "df": df, "threshold": round(thr, 2),
             "moved": sum(1 for s, x in zip(starts, res) if x != s)}
    # a second, coarser statistic with more power against shifts of mass between trees of few and of many clones:
    # classes = (number of clones, number of outliers)
    cexp, cobs = {}, {}
    for k in exp:
        ck = (count_clones(k[0]), k[1])
        cexp[ck] = cexp.get(ck, 0.0) + exp[k]
        cobs[ck] = cobs.get(ck, 0) + obs[k]
    cbig = {k: e for k, e in cexp.items() if e >= 25}
    crest_e = sum(e for k, e in cexp.items() if k not in cbig)
    crest_o = sum(o for k, o in cobs.items() if k not in cbig)
    cchi = sum((cobs[k] - e) ** 2 / e for k, e in cbig.items()) + ((crest_o - crest_e) ** 2 / crest_e if crest_e > 0 else 0.0)
    cdf = max(len(cbig) + (1 if crest_e > 0 else 0) - 1, 1)
    cthr = cdf * (1 - 2.0 / (9 * cdf) + z * math.sqrt(2.0 / (9 * cdf))) ** 3
    stats.update({"chi2_clone_counts": round(cchi, 2), "df_clone_counts": cdf, "threshold_clone_counts": round(cthr, 2)})
    if cchi > cthr and not n_exc and not (chi > thr):
        cw = max(cbig, key=lambda k: abs(cobs[k] - cbig[k]) / math.sqrt(cbig[k]))
        problems.append((dict(key, sub="sampled_invariance"),
                         "after one update from exact posterior samples the distribution of (clones, outliers) differs from pi: chi2=%.1f on %d df (alarm above %.1f); "
                         "trees with %d clones and %d outliers observed %d expected %.1f" % (cchi, cdf, cthr, cw[0], cw[1], cobs[cw], cexp[cw]),
                         {"M": M, "seed": seed}))
    if chi > thr and not n_exc:
        problems.append((dict(key, sub="sampled_invariance"),
                         "after one update from exact posterior samples the class distribution differs from pi: chi2=%.1f on %d df (alarm above %.1f); "
                         "shape class %r observed %d expected %.1f" % (chi, df, thr, worst, obs.get(worst, 0), exp.get(worst, 0.0)),
                         {"M": M, "seed": seed}))
    return stats, problems

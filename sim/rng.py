"""The random-number device (seam R).

`SimGenerator` is a `numpy.random.Generator` subclass, so scipy's
`rvs(random_state=...)` and every `rng` argument in PhyClone accept it.

modes
-----
record : delegate to the real numpy bit generator, count/digest every call.
choose : every draw is a *choice point* with a finite list of outcomes and
         exact probabilities.  The outcome taken at choice point i is
         script[i]; past the end of the script it is 0 (enumeration) or drawn
         from `tail_rng` (seeded sampling).  The path's log-probability is
         accumulated, and `trace` records (taken, n_outcomes) per choice point
         so that `explore()` can walk the whole outcome tree by replay.

Nothing here reads a clock, and logging never draws.
"""
import hashlib
import math
import random as _pyrandom

import numpy as np


class HarnessUnsupported(Exception):
    """The code under test used the generator in a way the device does not model.
    Reported as a harness error (exit 2), never as a verdict."""


class StepBudgetExceeded(Exception):
    """More draws than the per-run cap: a hang turned into a reportable failure."""


class LazyUniform(object):
    """The result of rng.random() in choose mode: a uniform variate known only
    as an interval [lo, hi); each threshold comparison that the interval does
    not decide becomes a binary choice point and narrows the interval."""

    __array_ufunc__ = None  # numpy scalars defer to our reflected operators
    __slots__ = ("_g", "lo", "hi")

    def __init__(self, gen):
        self._g = gen
        self.lo = 0.0
        self.hi = 1.0

    def _below(self, c):
        """Decide `u < c` (u continuous: same as u <= c)."""
        c = float(c)
        if c != c:
            return False
        if c <= self.lo:
            return False
        if c >= self.hi:
            return True
        p_true = (c - self.lo) / (self.hi - self.lo)
        j = self._g._choose([p_true, 1.0 - p_true], "random<")
        if j == 0:
            self.hi = c
            return True
        self.lo = c
        return False

    def __lt__(self, c):
        return self._below(c)

    def __le__(self, c):
        return self._below(c)

    def __gt__(self, c):
        return not self._below(c)

    def __ge__(self, c):
        return not self._below(c)

    def _no(self, *a, **k):
        raise HarnessUnsupported("rng.random() result consumed other than by a threshold comparison")

    __float__ = __int__ = __add__ = __radd__ = __sub__ = __rsub__ = _no
    __mul__ = __rmul__ = __truediv__ = __rtruediv__ = __neg__ = __bool__ = _no
    __index__ = __array__ = __eq__ = __ne__ = _no
    __hash__ = None


def _digest(x):
    if isinstance(x, np.ndarray):
        return hashlib.blake2b(np.ascontiguousarray(x).tobytes(), digest_size=8).hexdigest()
    return repr(x)


class SimGenerator(np.random.Generator):
    def __new__(cls, *a, **k):
        return super().__new__(cls)

    def __init__(self, mode="choose", script=None, tail_seed=None, seed=0, bitgen=None,
                 continuous=None, max_draws=None, log_calls=False):
        super().__init__(bitgen if bitgen is not None else np.random.PCG64(seed))
        assert mode in ("record", "choose")
        self.mode = mode
        self.script = list(script) if script is not None else []
        self.tail_rng = _pyrandom.Random(tail_seed) if tail_seed is not None else None
        self.trace = []  # (taken, n_outcomes)
        self.log_prob = 0.0
        self.n_draws = 0
        self.kinds = {}  # method -> count
        self.continuous = continuous  # callable(kind, params) -> value for beta/gamma in choose mode
        self.requests = []  # recorded continuous / binomial requests (C13)
        self.max_draws = max_draws
        self.log_calls = log_calls
        self.calls = []
        self._h = hashlib.blake2b(digest_size=16)

    def __reduce__(self):
        # numpy's own __reduce__ rebuilds a plain Generator; keep the device (and its draw budget) across pickle boundaries
        if self.mode != "record":
            raise HarnessUnsupported("a choose-mode generator cannot cross a process boundary")
        return (_rebuild_record, (self.bit_generator, self.max_draws, self.log_calls))

    # ------------------------------------------------------------------ core
    def _count(self, kind):
        self.n_draws += 1
        self.kinds[kind] = self.kinds.get(kind, 0) + 1
        if self.max_draws is not None and self.n_draws > self.max_draws:
            raise StepBudgetExceeded("more than %d generator draws" % self.max_draws)

    def _log(self, kind, args, res):
        s = "%s|%s|%s" % (kind, args, _digest(res))
        self._h.update(s.encode())
        if self.log_calls:
            self.calls.append(s)

    def digest(self):
        return self._h.hexdigest()

    def _choose(self, probs, kind):
        """Pick one of len(probs) outcomes; zero-probability outcomes are pruned."""
        live = [i for i, p in enumerate(probs) if p > 0.0]
        if not live:
            raise HarnessUnsupported("choice point with no positive-probability outcome (%s)" % kind)
        tot = math.fsum(probs[i] for i in live)
        i = len(self.trace)
        if i < len(self.script):
            j = self.script[i]
            if not (0 <= j < len(live)):
                raise HarnessUnsupported("replay script does not fit the outcome tree at choice %d" % i)
        elif self.tail_rng is not None:
            r = self.tail_rng.random() * tot
            acc = 0.0
            j = len(live) - 1
            for jj, ii in enumerate(live):
                acc += probs[ii]
                if r < acc:
                    j = jj
                    break
        else:
            j = 0
        self.trace.append((j, len(live)))
        self.log_prob += math.log(probs[live[j]] / tot)
        return live[j]

    # ------------------------------------------------------------- overrides
    def random(self, size=None, dtype=np.float64, out=None):
        self._count("random")
        if self.mode == "record":
            r = super().random(size=size, dtype=dtype, out=out)
            self._log("random", size, r)
            return r
        if size is not None or out is not None:
            raise HarnessUnsupported("random(size=...) in choose mode")
        return LazyUniform(self)

    def uniform(self, low=0.0, high=1.0, size=None):
        self._count("uniform")
        if self.mode == "record":
            r = super().uniform(low, high, size)
            self._log("uniform", (low, high, size), r)
            return r
        raise HarnessUnsupported("uniform() in choose mode")

    def shuffle(self, x, axis=0):
        self._count("shuffle")
        if self.mode == "record":
            super().shuffle(x, axis=axis)
            self._log("shuffle", len(x), np.asarray([hash(repr(type(e))) for e in x][:0]))
            return None
        n = len(x)
        items = list(x)
        # group equal builtin int/str items (sentinels); everything else is distinct by identity
        remaining = []  # list of [key, [items...]]
        index = {}
        for it in items:
            if isinstance(it, (int, str, np.integer)) and not isinstance(it, bool):
                key = ("v", int(it) if not isinstance(it, str) else it)
            else:
                key = ("id", id(it))
            if key in index:
                remaining[index[key]][1].append(it)
            else:
                index[key] = len(remaining)
                remaining.append([key, [it]])
        out = []
        left = n
        for _ in range(n):
            groups = [g for g in remaining if g[1]]
            if len(groups) == 1:
                out.extend(groups[0][1])
                groups[0][1] = []
                break
            probs = [len(g[1]) / left for g in groups]
            j = self._choose(probs, "shuffle")
            out.append(groups[j][1].pop(0))
            left -= 1
        for k in range(n):
            x[k] = out[k]
        return None

    def permutation(self, x, axis=0):
        self._count("permutation")
        if self.mode == "record":
            r = super().permutation(x, axis=axis)
            self._log("permutation", None, r)
            return r
        if isinstance(x, (int, np.integer)):
            arr = list(range(int(x)))
        else:
            arr = list(x)
        self.n_draws -= 1
        self.shuffle(arr)
        return np.asarray(arr)

    def choice(self, a, size=None, replace=True, p=None, axis=0, shuffle=True):
        self._count("choice")
        if self.mode == "record":
            r = super().choice(a, size=size, replace=replace, p=p, axis=axis, shuffle=shuffle)
            self._log("choice", (size, replace), np.asarray(r))
            return r
        if isinstance(a, (int, np.integer)):
            arr = np.arange(int(a))
        else:
            arr = np.asarray(a)
        if arr.ndim != 1:
            raise HarnessUnsupported("choice() on a non 1-d population")
        pop = arr.shape[0]
        if p is not None:
            raise HarnessUnsupported("choice(p=...) in choose mode")
        if size is None:
            if pop == 0:
                raise ValueError("a cannot be empty unless no samples are taken")
            # merge equal values
            vals = arr.tolist()
            groups = {}
            order = []
            for k, v in enumerate(vals):
                try:
                    hash(v)
                    key = v
                except TypeError:
                    key = ("pos", k)
                if key not in groups:
                    groups[key] = [k, 0]
                    order.append(key)
                groups[key][1] += 1
            probs = [groups[k][1] / pop for k in order]
            j = self._choose(probs, "choice")
            return arr[groups[order[j]][0]]
        k = int(size)
        if k < 0:
            raise ValueError("negative dimensions are not allowed")
        if pop == 0 and k > 0:
            raise ValueError("a cannot be empty unless no samples are taken")
        if replace:
            idx = [self._choose([1.0 / pop] * pop, "choice") for _ in range(k)]
            return arr[idx]
        if k > pop:
            raise ValueError("Cannot take a larger sample than population when replace is False")
        # uniform k-subset, returned in population order (orders merged)
        idx = []
        need = k
        for pos in range(pop):
            if need == 0:
                break
            rest = pop - pos
            if need == rest:
                idx.extend(range(pos, pop))
                need = 0
                break
            p_take = need / rest
            j = self._choose([p_take, 1.0 - p_take], "choice-subset")
            if j == 0:
                idx.append(pos)
                need -= 1
        return arr[idx]

    def integers(self, low, high=None, size=None, dtype=np.int64, endpoint=False):
        self._count("integers")
        if self.mode == "record":
            r = super().integers(low, high, size=size, dtype=dtype, endpoint=endpoint)
            self._log("integers", (int(low), None if high is None else int(high)), np.asarray(r))
            return r
        if size is not None:
            raise HarnessUnsupported("integers(size=...) in choose mode")
        if high is None:
            low, high = 0, low
        low, high = int(low), int(high)
        if endpoint:
            high += 1
        if high <= low:
            raise ValueError("low >= high")
        n = high - low
        j = self._choose([1.0 / n] * n, "integers")
        return np.int64(low + j)

    @staticmethod
    def _check_pvals(pvals):
        pv = np.asarray(pvals, dtype=np.float64)
        if pv.ndim != 1:
            raise HarnessUnsupported("multinomial with non 1-d pvals")
        if pv.shape[0] == 0:
            raise ValueError("pvals must have at least 1 dimension and the last dimension of pvals must be greater than 0.")
        if np.any(np.isnan(pv)) or np.any(pv < 0) or np.any(pv > 1):
            raise ValueError("pvals < 0, pvals > 1 or pvals contains NaNs")
        if pv.shape[0] > 1 and math.fsum(pv[:-1]) > 1.0 + 1e-12:
            raise ValueError("sum(pvals[:-1]) > 1.0")
        probs = [float(v) for v in pv[:-1]]
        probs.append(max(0.0, 1.0 - math.fsum(probs)))
        return probs

    def multinomial(self, n, pvals, size=None):
        self._count("multinomial")
        if self.mode == "record":
            r = super().multinomial(n, pvals, size=size)
            self._log("multinomial", (int(n), _digest(np.asarray(pvals, dtype=float))), r)
            return r
        if size is not None:
            raise HarnessUnsupported("multinomial(size=...) in choose mode")
        n = int(n)
        if n < 0:
            raise ValueError("n < 0")
        probs = self._check_pvals(pvals)
        k = len(probs)
        out = np.zeros(k, dtype=np.int64)
        if n == 1:
            j = self._choose(probs, "multinomial1")
            out[j] = 1
            return out
        # sequence of conditional binomials, exactly as the multinomial factorises
        left = n
        rem = 1.0
        for i in range(k - 1):
            if left == 0:
                break
            pi = probs[i]
            q = min(1.0, max(0.0, pi / rem)) if rem > 0 else 0.0
            if q >= 1.0:
                out[i] = left
                left = 0
                break
            if q > 0.0:
                pm = [math.comb(left, c) * (q ** c) * ((1 - q) ** (left - c)) for c in range(left + 1)]
                c = self._choose(pm, "multinomialN")
                out[i] = c
                left -= c
            rem -= pi
        out[k - 1] += left
        return out

    def binomial(self, n, p, size=None):
        self._count("binomial")
        if self.mode == "record":
            r = super().binomial(n, p, size=size)
            self._log("binomial", (n, p), np.asarray(r))
            return r
        n_i = int(np.asarray(n).reshape(-1)[0])
        p_f = float(np.asarray(p).reshape(-1)[0])
        self.requests.append(("binomial", n_i, p_f))
        if n_i != 1:
            raise HarnessUnsupported("binomial(n != 1) in choose mode")
        if p_f != p_f or p_f < 0 or p_f > 1:
            raise ValueError("p < 0, p > 1 or p is NaN")
        j = self._choose([1.0 - p_f, p_f], "bernoulli")
        r = np.int64(j)
        if size is not None:
            return np.full(size, r, dtype=np.int64)
        return r

    def _cont(self, kind, params, size):
        self.requests.append((kind,) + tuple(float(np.asarray(x).reshape(-1)[0]) for x in params))
        if self.continuous is None:
            raise HarnessUnsupported("%s() in choose mode without a script for continuous draws" % kind)
        v = float(self.continuous(kind, self.requests[-1][1:]))
        if size is not None:
            return np.full(size, v, dtype=np.float64)
        return v

    def beta(self, a, b, size=None):
        self._count("beta")
        if self.mode == "record":
            r = super().beta(a, b, size=size)
            self._log("beta", (a, b), np.asarray(r))
            return r
        return self._cont("beta", (a, b), size)

    def gamma(self, shape, scale=1.0, size=None):
        self._count("gamma")
        if self.mode == "record":
            r = super().gamma(shape, scale, size=size)
            self._log("gamma", (shape, scale), np.asarray(r))
            return r
        return self._cont("gamma", (shape, scale), size)

    def standard_gamma(self, shape, size=None, dtype=np.float64, out=None):
        self._count("standard_gamma")
        if self.mode == "record":
            r = super().standard_gamma(shape, size=size, dtype=dtype, out=out)
            self._log("standard_gamma", (shape,), np.asarray(r))
            return r
        return self._cont("standard_gamma", (shape,), size)

    def spawn(self, n_children):
        if self.mode != "record":
            raise HarnessUnsupported("spawn() in choose mode")
        self._count("spawn")
        kids = self.bit_generator.spawn(n_children)
        return [SimGenerator(mode="record", bitgen=k, max_draws=self.max_draws, log_calls=self.log_calls) for k in kids]

    def _unsupported(name):
        def f(self, *a, **k):
            if self.mode == "record":
                self._count(name)
                return getattr(np.random.Generator, name)(self, *a, **k)
            raise HarnessUnsupported("%s() is not modelled by the simulated generator" % name)
        f.__name__ = name
        return f

    for _n in ("normal", "standard_normal", "exponential", "standard_exponential", "poisson", "permuted",
               "dirichlet", "geometric", "hypergeometric", "negative_binomial", "lognormal", "laplace",
               "logistic", "triangular", "vonmises", "wald", "weibull", "zipf", "chisquare", "f",
               "standard_cauchy", "standard_t", "pareto", "power", "rayleigh", "gumbel", "logseries",
               "multivariate_normal", "multivariate_hypergeometric", "noncentral_chisquare", "noncentral_f", "bytes"):
        locals()[_n] = _unsupported(_n)
    del _n, _unsupported


def _rebuild_record(bitgen, max_draws, log_calls):
    return SimGenerator(mode="record", bitgen=bitgen, max_draws=max_draws, log_calls=log_calls)


# ---------------------------------------------------------------- exploration
class ExploreBudget(Exception):
    pass


def next_script(trace):
    """Successor of a finished path in depth-first order, or None when the tree is exhausted."""
    t = list(trace)
    while t and t[-1][0] >= t[-1][1] - 1:
        t.pop()
    if not t:
        return None
    s = [j for j, _ in t]
    s[-1] += 1
    return s


def explore(fn, max_leaves=None, gen_kwargs=None):
    """Walk the complete random-outcome tree of fn(gen) by replay.

    Yields (result, probability, script) per leaf.  fn must be a pure function
    of the generator's outcomes (the caller clears memo caches as needed)."""
    script = []
    leaves = 0
    gk = gen_kwargs or {}
    while script is not None:
        g = SimGenerator(mode="choose", script=script, **gk)
        res = fn(g)
        yield res, math.exp(g.log_prob), [j for j, _ in g.trace]
        leaves += 1
        if max_leaves is not None and leaves >= max_leaves:
            nxt = next_script(g.trace)
            if nxt is not None:
                raise ExploreBudget("outcome tree larger than %d leaves" % max_leaves)
        script = next_script(g.trace)

"""Reference models.  Written from the property statements; imports nothing from phyclone.

An abstract forest is
    Forest(own=(frozenset, ...), parent=(int, ...), outliers=frozenset)
node i holds data-point ids own[i]; parent[i] is a node position or -1 for a top-level clone.
"""
import itertools
import math
from collections import namedtuple

import numpy as np

Forest = namedtuple("Forest", "own parent outliers")


# ----------------------------------------------------------------- structure
def children_of(f):
    ch = [[] for _ in f.own]
    roots = []
    for i, p in enumerate(f.parent):
        if p < 0:
            roots.append(i)
        else:
            ch[p].append(i)
    return ch, roots


def clades_of(f):
    ch, roots = children_of(f)
    clade = [None] * len(f.own)

    def rec(i):
        s = set(f.own[i])
        for c in ch[i]:
            s |= rec(c)
        clade[i] = frozenset(s)
        return s

    for r in roots:
        rec(r)
    return clade


def canon(f):
    """Identity of an abstract forest: set of (own data, clade) pairs + outlier set."""
    cl = clades_of(f)
    return (frozenset((f.own[i], cl[i]) for i in range(len(f.own))), frozenset(f.outliers))


def canon_sortable(c):
    return (sorted((sorted(o), sorted(cl)) for o, cl in c[0]), sorted(c[1]))


def canon_str(c):
    nodes, out = canon_sortable(c)
    return "clones=%s outliers=%s" % (["%s<%s>" % (o, cl) for o, cl in nodes], out)


def set_partitions(items):
    items = list(items)
    if not items:
        yield []
        return
    first, rest = items[0], items[1:]
    for p in set_partitions(rest):
        for i in range(len(p)):
            yield p[:i] + [[first] + p[i]] + p[i + 1:]
        yield [[first]] + p


def rooted_forests(k):
    """All parent vectors over k labelled nodes that are forests."""
    for par in itertools.product(range(-1, k), repeat=k):
        ok = True
        for i in range(k):
            seen = set()
            j = i
            while j >= 0:
                if j in seen:
                    ok = False
                    break
                seen.add(j)
                j = par[j]
            if not ok:
                break
        if ok:
            yield par


def enumerate_forests(points, outliers=False):
    """Every abstract forest over `points` (each exactly once, by canonical form)."""
    points = sorted(points)
    seen = set()
    out = []
    subsets = [()]
    if outliers:
        subsets = [s for r in range(len(points) + 1) for s in itertools.combinations(points, r)]
    for o in subsets:
        rest = [p for p in points if p not in o]
        for part in set_partitions(rest):
            blocks = tuple(frozenset(b) for b in part)
            for par in rooted_forests(len(blocks)):
                f = Forest(blocks, tuple(par), frozenset(o))
                c = canon(f)
                if c not in seen:
                    seen.add(c)
                    out.append(f)
    return out


# ------------------------------------------------------------------- C09
def linear_extensions(f):
    """All data orders in which every point of a clone comes after all points of the clone's
    descendants; outliers anywhere."""
    ch, roots = children_of(f)
    node_of = {}
    for i, s in enumerate(f.own):
        for d in s:
            node_of[d] = i
    desc = [set() for _ in f.own]

    def rec(i):
        s = set()
        for c in ch[i]:
            s.add(c)
            s |= rec(c)
        desc[i] = s
        return s

    for r in roots:
        rec(r)
    pts = sorted(list(node_of) + list(f.outliers))
    res = []
    for perm in itertools.permutations(pts):
        pos = {d: k for k, d in enumerate(perm)}
        ok = True
        for i, s in enumerate(f.own):
            if not desc[i]:
                continue
            first_own = min(pos[d] for d in s)
            for dn in desc[i]:
                if max(pos[d] for d in f.own[dn]) > first_own:
                    ok = False
                    break
            if not ok:
                break
        if ok:
            res.append(perm)
    return res


def count_linear_extensions(f):
    """Closed form, independent of the enumeration above (used for larger forests)."""
    ch, roots = children_of(f)

    def rec(i):
        tot = 0
        cnt = 1
        sizes = []
        for c in ch[i]:
            s, k = rec(c)
            sizes.append(s)
            cnt *= k
        tot = sum(sizes)
        cnt *= multinomial(sizes)
        cnt *= math.factorial(len(f.own[i]))
        return tot + len(f.own[i]), cnt

    sizes = []
    cnt = 1
    for r in roots:
        s, k = rec(r)
        sizes.append(s)
        cnt *= k
    cnt *= multinomial(sizes)
    n_tree = sum(sizes)
    n_out = len(f.outliers)
    cnt *= math.comb(n_tree + n_out, n_out) * math.factorial(n_out)
    return cnt


def multinomial(sizes):
    n = sum(sizes)
    r = math.factorial(n)
    for s in sizes:
        r //= math.factorial(s)
    return r


# ------------------------------------------------------------------- C08
def placements(f, dp, outliers_on):
    """Every way of placing the next data point dp on forest f (C08's support)."""
    ch, roots = children_of(f)
    res = []
    for r in roots:
        own = list(f.own)
        own[r] = own[r] | {dp}
        res.append(Forest(tuple(own), f.parent, f.outliers))
    for k in range(len(roots) + 1):
        for sub in itertools.combinations(roots, k):
            own = tuple(f.own) + (frozenset([dp]),)
            new = len(f.own)
            par = list(f.parent) + [-1]
            for s in sub:
                par[s] = new
            res.append(Forest(own, tuple(par), f.outliers))
    if outliers_on:
        res.append(Forest(f.own, f.parent, f.outliers | {dp}))
    return res


EMPTY = Forest((), (), frozenset())


# ------------------------------------------------------------------- C03
def logsumexp(v):
    v = np.asarray(v, dtype=np.float64)
    m = np.max(v)
    if not np.isfinite(m):
        return float(m)
    return float(m + np.log(np.sum(np.exp(v - m))))


def grid_marginal_recursion(f, values, grid):
    """Per-sample vector for the virtual root: entry k = sum over index assignments (node index >=
    sum of children's, top-level clones sum <= k) of the product of prior-weighted likelihoods.
    Direct O(G^2) log-sum-exp recursion, no flooring, no cache.
    values: dict dp -> array (S, G) of log-likelihoods.  Returns array (S, G) (log)."""
    ch, roots = children_of(f)
    S = next(iter(values.values())).shape[0] if values else 1
    log_prior = -math.log(grid)

    def node_R(i, s):
        p = np.full(grid, log_prior)
        for d in f.own[i]:
            p = p + values[d][s]
        kids = [node_R(c, s) for c in ch[i]]
        return p + S_of(kids)

    def S_of(kids):
        if not kids:
            return np.zeros(grid)
        D = kids[0]
        for k in kids[1:]:
            if grid <= 64:
                nd = np.empty(grid)
                for t in range(grid):
                    nd[t] = logsumexp([D[a] + k[t - a] for a in range(t + 1)])
            else:
                # same sum, one matrix: M[t, a] = D[a] + k[t - a] for a <= t
                t_idx = np.arange(grid)[:, None]
                a_idx = np.arange(grid)[None, :]
                diff = t_idx - a_idx
                M = np.where(diff >= 0, D[None, :] + k[np.clip(diff, 0, grid - 1)], -np.inf)
                mx = np.max(M, axis=1)
                nd = mx + np.log(np.sum(np.exp(M - mx[:, None]), axis=1))
            D = nd
        if grid <= 64:
            return np.array([logsumexp(D[: t + 1]) for t in range(grid)])
        return np.logaddexp.accumulate(D)

    out = np.empty((S, grid))
    for s in range(S):
        kids = [node_R(r, s) for r in roots]
        out[s] = log_prior + S_of(kids)
    return out


def grid_marginal_bruteforce(f, values, grid):
    """Literal sum over all index assignments (tiny grids / few clones only)."""
    ch, roots = children_of(f)
    K = len(f.own)
    S = next(iter(values.values())).shape[0] if values else 1
    log_prior = -math.log(grid)
    out = np.full((S, grid), -np.inf)
    for s in range(S):
        lp = []
        for i in range(K):
            p = np.full(grid, log_prior)
            for d in f.own[i]:
                p = p + values[d][s]
            lp.append(p)
        acc = [[] for _ in range(grid)]
        for idx in itertools.product(range(grid), repeat=K):
            ok = True
            for i in range(K):
                if sum(idx[c] for c in ch[i]) > idx[i]:
                    ok = False
                    break
            if not ok:
                continue
            top = sum(idx[r] for r in roots)
            if top >= grid:
                continue
            v = sum(lp[i][idx[i]] for i in range(K))
            for k in range(top, grid):
                acc[k].append(v)
        for k in range(grid):
            out[s, k] = log_prior + (logsumexp(acc[k]) if acc[k] else -np.inf)
    return out


def outlier_marginal(value, grid):
    """Marginal likelihood a data point would have alone in a single-clone tree:
    sum_k sum_{j<=k} prior*prior*lik_j per sample, summed (log) over samples."""
    log_prior = -math.log(grid)
    tot = 0.0
    for s in range(value.shape[0]):
        r = value[s] + log_prior
        cum = np.array([logsumexp(r[: k + 1]) for k in range(grid)])
        tot += logsumexp(cum + log_prior)
    return tot


def root_term(R, c=1000.0):
    """Top-level-clone factor: 1000^-(R-1) / Z(R), Z(R) = sum_{i=1..R} 1000^-(i-1); 1 for R = 0
    (the normalised form pinned by the repository's test_root_term)."""
    if R == 0:
        return 0.0
    z = sum(c ** (-(i - 1)) for i in range(1, R + 1))
    return -(R - 1) * math.log(c) - math.log(z)


def fscrp_log_density(f, values, grid, alpha, out_prior, form):
    """C03's formula term by term.
    values: dp -> (S,G) log-likelihood; out_prior: dp -> (log p, log(1-p)) or None when p == 0."""
    ch, roots = children_of(f)
    K = len(f.own)
    lp = K * math.log(alpha) + sum(math.lgamma(len(o)) for o in f.own)
    if form == "marginal":
        lp -= (K - 1) * math.log(K + 1)
    else:
        def size(i):
            return 1 + sum(size(c) for c in ch[i])

        for r in roots:
            m = size(r)
            lp -= (m - 1) * math.log(m)
        lp += root_term(len(roots))
    lp -= math.lgamma(len(roots) + 1)
    for i in range(K):
        lp -= math.lgamma(len(ch[i]) + 1)
    for i in range(K):
        for d in f.own[i]:
            if out_prior.get(d) is not None:
                lp += out_prior[d][1]
    for d in f.outliers:
        if out_prior.get(d) is not None:
            lp += out_prior[d][0]
    if roots:
        gm = grid_marginal_recursion(f, values, grid)
        for s in range(gm.shape[0]):
            lp += logsumexp(gm[s]) if form == "marginal" else gm[s, -1]
    for d in f.outliers:
        lp += outlier_marginal(values[d], grid)
    return lp


# ------------------------------------------------------------------- C13
def escobar_west(a, b, alpha, K, n, eta):
    """Parameters of the three draws of the Escobar-West update (C13's statement)."""
    rate = b - math.log(eta)
    shape = a + K - 1
    x = shape / (n * rate)
    return {"beta": (alpha + 1.0, float(n)), "pi": x / (1.0 + x), "shape0": shape, "shape1": shape + 1, "rate": rate}

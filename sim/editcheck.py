"""Shared driver for the edit-history world checks (C03, C06, C07, C15a) and the sampler workload (G1)."""
import contextlib
import io
import json
import math
import random

import numpy as np

from sim import bridge, models, monitors, runner, world_edit
from sim.rng import SimGenerator


def random_cfg(r, big=False):
    n = r.choice([1, 2, 3, 3, 4, 4, 5, 6, 7, 8])
    return dict(n=n, samples=r.choice([1, 1, 2, 3]), grid=r.choice([3, 4, 5, 7, 11]), style=r.choice(["gauss", "gauss", "peaked", "flat"]),
                data_seed=r.randrange(1 << 30), outlier_prob=r.choice([0.0, 0.0, 0.01, 0.3]),
                alpha=(round(math.exp(r.uniform(math.log(0.01), math.log(100.0))), 6) if r.random() < 0.9 else r.choice([1e-10, 1e-6, 1e4, 1e7])),
                hetero=r.random() < 0.3, levels=(None if r.random() < 0.85 else [0.0, -160.0, 95.0]))


def history_task(item):
    seed, oracles, minimise = item[:3]
    fft = len(item) > 3 and item[3]
    r = random.Random(seed)
    cfg = random_cfg(r)
    if fft == "big":
        # tens of data points: clones with many members, nodes with many children, two-digit node labels
        cfg.update(n=r.choice([12, 20, 35, 60]), grid=r.choice([11, 21, 40]), style=r.choice(["gauss", "gauss", "flat", "narrow"]))
    elif fft:
        # grids from 1000 points take the FFT convolution branch; data stay inside a small dynamic range (C02's window)
        cfg.update(n=r.choice([2, 3, 4, 5]), grid=r.choice([1000, 1024, 1100]), style=r.choice(["narrow", "narrow", "flat"]), samples=r.choice([1, 2]))
    ops = world_edit.gen_history(r, cfg["n"], n_moves=(r.choice([0, 3, 8, 15, 30, 60]) if fft in (False, "big") else r.choice([0, 2, 5])), p_fault=r.choice([0.0, 0.1, 0.25]),
                                 outliers=cfg["outlier_prob"] > 0)
    probs, st = world_edit.run_history(cfg, ops, oracles)
    out = {"seed": seed, "cfg": cfg, "n_ops": len(ops), "stats": {k: v for k, v in st.items() if k != "state_set"},
           "state_hashes": [hash(s) for s in st["state_set"]], "problems": [], "sample_ops": ops[:12]}
    if probs:
        key, detail, opi = probs[0]
        mops = ops[: opi + 1]
        if minimise:
            def fails(cand):
                p2, _ = world_edit.run_history(cfg, cand, oracles)
                return any(k == key for k, _, _ in p2)
            mops = world_edit.ddmin(mops, fails)
            p3, _ = world_edit.run_history(cfg, mops, oracles)
            for k, d, _ in p3:
                if k == key:
                    detail = d
        out["problems"].append((key, detail, {"cfg": cfg, "ops": mops, "oracles": sorted(oracles), "key": key}))
    return out


def run_histories(ctx, oracles, n_hist, tag="h", fft=False):
    items = [(ctx.sub((tag, i)), sorted(oracles), True, fft) for i in range(n_hist)]
    if fft == "big":
        ctx.probe("histories_with_12_to_60_data_points", n_hist)
    elif fft:
        ctx.probe("histories_on_fft_sized_grids", n_hist)
    res = runner.pmap(history_task, items, timeout=1200)
    states = set()
    tot_ops = 0
    persist = {}
    maxd = {"max_rebuild_diff": 0.0, "max_model_diff": 0.0}
    nontrivial = 0
    for out in res:
        tot_ops += out["stats"]["ops"]
        states.update(out["state_hashes"])
        if out["stats"]["ops"] >= 3:
            nontrivial += 1
        for k, v in out["stats"]["persist"].items():
            persist[k] = persist.get(k, 0) + v
        for k, v in out["stats"]["probes"].items():
            ctx.probe(k, v)
        for k in maxd:
            maxd[k] = max(maxd[k], out["stats"][k])
        for key, detail, rep in out["problems"]:
            ctx.violation(key, detail + " | minimised history: %d ops" % len(rep["ops"]), rep)
    for k, v in persist.items():
        ctx.fault("persist." + k, v)
    ctx.cov["evaluations"] += len(items)
    ctx.cov["distinct_nontrivial"] += nontrivial
    ctx.cov["operations_applied"] = ctx.cov.get("operations_applied", 0) + tot_ops
    ctx.cov["distinct_abstract_states_reached"] = ctx.cov.get("distinct_abstract_states_reached", 0) + len(states)
    ctx.cov.update({k: max(v, ctx.cov.get(k, 0.0)) for k, v in maxd.items()})
    for out in res[:2]:
        ctx.sample({"cfg": out["cfg"], "first_ops": out["sample_ops"]})
    return res


def replay_history(ctx, obj):
    probs, st = world_edit.run_history(obj["cfg"], obj["ops"], set(obj["oracles"]))
    for key, detail, opi in probs:
        if key == obj["key"]:
            ctx.violation(key, detail, obj)
            break
    ctx.cov["evaluations"] = 1


# ---------------------------------------------------------------------------- G1: the real samplers as workload
def sampler_workload(item):
    """A seeded short chain through run.run_phyclone_chain with the Tree monitor and sampler-boundary monitors on."""
    seed, oracles = item
    import phyclone.run as prun
    from phyclone.mcmc import gibbs_mh, particle_gibbs
    from phyclone.smc.samplers import unconditional

    oracles = set(oracles)
    r = random.Random(seed)
    n = r.choice([1, 2, 3, 4, 5, 6, 8])
    outlier_prob = r.choice([0.0, 0.0, 0.01, 0.3])
    data = bridge.make_data(r, n, samples=r.choice([1, 2]), grid=r.choice([5, 11, 21]), style=r.choice(["gauss", "peaked"]),
                            outlier_prob=outlier_prob)
    cfg = dict(n=n, outlier_prob=outlier_prob, proposal=r.choice(["bootstrap", "semi-adapted", "fully-adapted"]),
               particles=r.choice([1, 2, 3, 5, 8]), threshold=r.choice([0.0, 0.5, 1.0]), burnin=r.choice([1, 2]), iters=r.choice([1, 2, 4]),
               subtree=r.choice([0.0, 0.0, 0.5, 1.0]), conc=r.random() < 0.5, rng_seed=r.randrange(1 << 30))
    expected = set(range(n))
    problems = []
    stats = {"tree_calls": 0, "sampler_calls": 0, "rebuilds": 0, "max_rebuild_diff": 0.0, "probes": {}}
    rr = random.Random(seed ^ 0x5555)

    def on_event(name, tree):
        stats["tree_calls"] += 1
        if problems:
            return
        if "c07" in oracles:
            bad = monitors.wellformed(tree)
            if bad:
                problems.append(({"sub": "wellformed", "code": bad[0][0], "world": "samplers", "after": name},
                                 "after Tree.%s: %s" % (name, bad[0][1])))
                return
        if "c06" in oracles and name not in ("copy",) and rr.random() < 0.25:
            try:
                f = bridge.to_forest(tree)
            except Exception:
                return
            if any(len(o) == 0 for o in f.own):
                return
            pts = set(f.outliers).union(*f.own) if f.own else set(f.outliers)
            fresh = bridge.build_tree(f, data)
            na, nb = monitors.node_arrays(tree), monitors.node_arrays(fresh)
            stats["rebuilds"] += 1
            for k in nb:
                for j in (0, 1):
                    if nb[k][j] is None or k not in na:
                        continue
                    d = monitors.max_diff(na[k][j], nb[k][j])
                    stats["max_rebuild_diff"] = max(stats["max_rebuild_diff"], d if d == d else 0.0)
                    if not monitors.close(na[k][j], nb[k][j]):
                        problems.append(({"sub": "stale", "what": ["log_p", "log_r"][j], "world": "samplers", "after": name},
                                         "after Tree.%s %s of %s differs from a fresh rebuild by %.3g" % (
                                             name, ["log_p", "log_r"][j], k if k == "root" else sorted(k), d)))
                        return

    mon = monitors.TreeMonitor(on_event).install()
    saved = []

    def wrap_sampler(cls, label):
        orig = cls.sample_tree

        def w(self, tree):
            before = sorted(int(d.idx) for d in tree.data)
            out = orig(self, tree)
            stats["sampler_calls"] += 1
            after = sorted(int(d.idx) for d in out.data)
            if "c07" in oracles and not problems:
                if before != after or len(after) != len(set(after)):
                    problems.append(({"sub": "conservation", "sampler": label}, "%s.sample_tree got data %r and returned %r" % (label, before, after)))
                bad = monitors.wellformed(out, expected=expected)
                if bad:
                    problems.append(({"sub": "wellformed", "code": bad[0][0], "world": "samplers", "after": label + ".sample_tree"},
                                     "tree returned by %s.sample_tree: %s" % (label, bad[0][1])))
            return out

        cls.sample_tree = w
        saved.append((cls, orig))

    for cls, label in ((gibbs_mh.DataPointSampler, "DataPointSampler"), (gibbs_mh.PruneRegraphSampler, "PruneRegraphSampler"),
                       (particle_gibbs.ParticleGibbsTreeSampler, "ParticleGibbsTreeSampler"),
                       (particle_gibbs.ParticleGibbsSubtreeSampler, "ParticleGibbsSubtreeSampler"),
                       (unconditional.UnconditionalSMCSampler, "UnconditionalSMCSampler")):
        wrap_sampler(cls, label)
    exc = None
    try:
        g = SimGenerator(mode="record", seed=cfg["rng_seed"], max_draws=2000000)
        with contextlib.redirect_stdout(io.StringIO()):
            res = prun.run_phyclone_chain(cfg["burnin"], cfg["conc"], 1.0, data, float("inf"), cfg["iters"], cfg["particles"], 1, 1,
                                          outlier_prob, 1000000, cfg["proposal"], cfg["threshold"], g, ["s"], 1, 0, cfg["subtree"])
        for e in res["trace"]:
            t = __import__("phyclone.tree", fromlist=["Tree"]).Tree.from_dict(e["tree"])
            if "c07" in oracles and not problems:
                bad = monitors.wellformed(t, expected=expected)
                if bad:
                    problems.append(({"sub": "wellformed", "code": bad[0][0], "world": "trace_entry"}, bad[0][1]))
    except Exception as e:
        import traceback

        where = ""
        for fr in traceback.extract_tb(e.__traceback__):
            if "/phyclone/" in fr.filename:
                where = "%s:%s" % (fr.filename.split("phyclone/")[-1], fr.name)
        exc = "%s@%s: %s" % (type(e).__name__, where, str(e)[:200])
        # guards inside Tree firing during a sampler run are C07's business; other exceptions belong to C19
        if "c07" in oracles and where.startswith("tree/") and not problems:
            problems.append(({"sub": "tree_guard", "exc": type(e).__name__, "where": where}, exc))
    finally:
        mon.uninstall()
        for cls, orig in saved:
            cls.sample_tree = orig
    return {"cfg": cfg, "seed": seed, "stats": stats, "problems": [(k, d, {"seed": seed, "oracles": sorted(oracles), "key": k}) for k, d in problems[:1]],
            "exc": exc}


def run_workloads(ctx, oracles, n_runs):
    items = [(ctx.sub(("w", i)), sorted(oracles)) for i in range(n_runs)]
    res = runner.pmap(sampler_workload, items, timeout=1200)
    calls = 0
    scalls = 0
    excs = {}
    for out in res:
        calls += out["stats"]["tree_calls"]
        scalls += out["stats"]["sampler_calls"]
        ctx.cov["max_rebuild_diff"] = max(ctx.cov.get("max_rebuild_diff", 0.0), out["stats"]["max_rebuild_diff"])
        if out["exc"]:
            excs[out["exc"].split(":")[0]] = excs.get(out["exc"].split(":")[0], 0) + 1
        for key, detail, rep in out["problems"]:
            ctx.violation(key, detail + " | sampler workload seed %d cfg %s" % (out["seed"], json.dumps(out["cfg"], sort_keys=True)), dict(rep, world="samplers"))
    if sum(excs.values()) > 0.25 * len(items):
        ctx.cannot_judge("%d of %d sampler workloads raised outside phyclone/tree: %r (see C19)" % (sum(excs.values()), len(items), excs))
    ctx.cov["evaluations"] += len(items)
    ctx.cov["distinct_nontrivial"] += sum(1 for o in res if o["stats"]["tree_calls"] > 20)
    ctx.cov["sampler_workload_runs"] = len(items)
    ctx.cov["monitored_tree_calls"] = calls
    ctx.cov["monitored_sampler_calls"] = scalls
    ctx.cov["sampler_workload_exceptions_left_to_C19"] = excs
    for out in res[:1]:
        ctx.sample({"sampler_workload": out["cfg"]})
    return res


def replay_workload(ctx, obj):
    out = sampler_workload((obj["seed"], obj["oracles"]))
    for key, detail, rep in out["problems"]:
        if key == obj["key"]:
            ctx.violation(key, detail, obj)
    ctx.cov["evaluations"] = 1

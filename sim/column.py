"""Exact balance at single target trees of large state spaces (C04, prune-regraft on a dozen or more clones).

pi K = pi, read at one column y:   sum over x of pi(x) K(x, y) = pi(y).
For a move whose one-step predecessors of y can be listed from the reference model (prune-and-regraft: every tree that
differs from y in where one subtree hangs, and y itself), the sum has ~n^2 terms although the state space has (n+1)^(n-1)
labelled forests.  Each K(x, .) is the complete outcome tree of the real sampler started at x (all random outcomes with
their probabilities); pi is the code's own log_p_one on freshly built trees.  Data are non-exchangeable, so no symmetry is
used: this reaches trees of 12-14 clones where candidate caps, scan limits and other size-triggered shortcuts start."""
import math
import random

import numpy as np

from sim import bridge, kernelmat, models, runner
from sim.models import Forest
from sim.rng import ExploreBudget, HarnessUnsupported, explore


def subtree_nodes(f, i):
    out = [i]
    for j, p in enumerate(f.parent):
        if p == i:
            out += subtree_nodes(f, j)
    return out


def prg_predecessors(y):
    """All forests x from which one prune-and-regraft can give y (y included)."""
    res = {models.canon(y): y}
    k = len(y.own)
    for i in range(k):
        sub = set(subtree_nodes(y, i))
        for tgt in [-1] + [j for j in range(k) if j not in sub]:
            if tgt == y.parent[i]:
                continue
            par = list(y.parent)
            par[i] = tgt
            x = Forest(y.own, tuple(par), y.outliers)
            res.setdefault(models.canon(x), x)
    return list(res.values())


def random_target(r, n, kind):
    """Target forest over n data points: singletons or a few two-point clones; chain / star / bushy / random."""
    pts = list(range(n))
    r.shuffle(pts)
    own = []
    while pts:
        s = 2 if (kind == "pairs" and len(pts) >= 2 and r.random() < 0.3) else 1
        own.append(frozenset(pts[:s]))
        pts = pts[s:]
    k = len(own)
    shape = r.choice(["chain", "star", "random", "random", "two_chains"])
    par = []
    for i in range(k):
        if i == 0:
            par.append(-1)
        elif shape == "chain":
            par.append(i - 1)
        elif shape == "star":
            par.append(0)
        elif shape == "two_chains":
            par.append(-1 if i == k // 2 else i - 1)
        else:
            par.append(r.choice([-1] + list(range(i))))
    return Forest(tuple(own), tuple(par), frozenset())


def _fj(f):
    return {"own": [sorted(o) for o in f.own], "parent": list(f.parent), "outliers": sorted(f.outliers)}


def _uf(j):
    return Forest(tuple(frozenset(o) for o in j["own"]), tuple(j["parent"]), frozenset(j["outliers"]))


_DATA = {}


def _data(c):
    key = (c["n"], c["samples"], c["grid"], c["data_seed"], c["outlier_prob"], c["style"])
    if key not in _DATA:
        _DATA.clear()
        _DATA[key] = bridge.make_data(random.Random(c["data_seed"]), c["n"], samples=c["samples"], grid=c["grid"], style=c["style"],
                                      outlier_prob=c["outlier_prob"])
    return _DATA[key]


def _row_to(item):
    """Mass that the real move started at x puts on y, and log pi(x)."""
    c, xj, yj, max_leaves = item
    from phyclone.tree import FSCRPDistribution, TreeJointDistribution

    x, y = _uf(xj), _uf(yj)
    ycn = models.canon(y)
    data = _data(c)
    start = bridge.build_tree(x, data)
    hit = 0.0
    total = 0.0
    exc = {}
    leaves = 0

    def leaf(g):
        bridge.clear_caches()
        td = TreeJointDistribution(FSCRPDistribution(c["alpha"]))
        try:
            op = kernelmat.make_operation(c, g, td, data)
            return ("ok", bridge.canon_tree(op(start.copy())) == ycn)
        except (HarnessUnsupported, ExploreBudget):
            raise
        except Exception as e:
            return ("exc", type(e).__name__ + ": " + str(e)[:120])

    try:
        for res, p, script in explore(leaf, max_leaves=max_leaves):
            leaves += 1
            total += p
            if res[0] == "ok":
                if res[1]:
                    hit += p
            else:
                exc[res[1]] = exc.get(res[1], 0.0) + p
    except ExploreBudget:
        return {"budget": True}
    td = TreeJointDistribution(FSCRPDistribution(c["alpha"]))
    return {"hit": hit, "total": total, "exc": exc, "leaves": leaves, "logpi": float(td.log_p_one(start)), "is_y": models.canon(x) == ycn}


def run_column(c, y, max_leaves=200000):
    """Returns (stats, problems) for the balance equation at target y under configuration c (op 'prg')."""
    preds = prg_predecessors(y)
    items = [(c, _fj(x), _fj(y), max_leaves) for x in preds]
    rows = runner.pmap(_row_to, items, timeout=3000)
    if any(r.get("budget") for r in rows):
        return None, []
    base = dict(kernelmat.config_key(c), world="column_balance", n=c["n"])
    problems = []
    for x, r in zip(preds, rows):
        for e, p in r["exc"].items():
            problems.append((dict(base, sub="exception", exc=e.split(":")[0]), "from %s: %s (probability %.3g)" % (models.canon_str(models.canon(x)), e, p), {}))
        if abs(r["total"] - 1.0) > 1e-9:
            raise runner.HarnessError("leaf probabilities sum to %r" % r["total"])
    lpy = [r["logpi"] for r in rows if r["is_y"]][0]
    inflow = math.fsum(math.exp(r["logpi"] - lpy) * r["hit"] for r in rows)
    resid = abs(inflow - 1.0)
    if not problems and resid > 1e-9:
        problems.append((dict(base, sub="invariance"), "balance at one target tree of %d clones: sum_x pi(x) K(x,y) / pi(y) = %.12f over %d predecessors (target %s)" % (
            len(y.own), inflow, len(preds), models.canon_str(models.canon(y))), {}))
    return {"clones": len(y.own), "predecessors": len(preds), "leaves": sum(r["leaves"] for r in rows), "ratio_minus_one": inflow - 1.0,
            "self_mass": [r["hit"] for r in rows if r["is_y"]][0]}, problems

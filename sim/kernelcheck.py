"""Shared driver of C01 and C04: run a list of configurations through kernelmat, report, minimise."""
import json
import math

from sim import bridge, kernelmat, models, runner

PROPOSALS = ["bootstrap", "semi-adapted", "fully-adapted"]


def random_config(r, op, n_choices, N_choices, allow_outliers=True):
    n = r.choice(n_choices)
    N = r.choice(N_choices)
    c = kernelmat.default_config(
        op=op, n=n, N=N,
        wiring=r.choice(["run", "lib"]),
        proposal=r.choice(PROPOSALS),
        samples=r.choice([1, 1, 2, 3]),
        grid=r.choice([3, 4, 5, 7]),
        style=r.choice(["gauss", "gauss", "peaked", "flat", "binom"]),
        data_seed=r.randrange(1 << 30),
        alpha=r.choice([0.2, 1.0, 3.7, round(math.exp(r.uniform(math.log(0.05), math.log(20.0))), 4)]),
        threshold=r.choice([0.0, 0.5, 0.5, 1.0, round(r.random(), 3)]),
        outlier_prob=(r.choice([0.0, 0.0, 0.01, 0.3, round(r.uniform(0.001, 0.9), 3)]) if allow_outliers else 0.0),
    )
    c["lib_outlier_proposal"] = r.choice([0.1, 0.1, 0.5, round(r.uniform(0.01, 0.9), 3)])
    if c["outlier_prob"] > 0 and c["style"] != "flat" and r.random() < 0.35:
        c["hetero"] = 1  # per-point outlier priors of different cluster sizes, as pre-clustered input gives
    if op == "sweep":
        c["subtree_prob"] = 0.0
        c["n_dp"] = r.choice([1, 1, 2])
        c["n_prg"] = r.choice([1, 1, 2])
    return c


def cost_guard(c):
    """Keep single configurations inside the budget: resampling at every step multiplies the outcome tree."""
    if c["op"] in ("pg", "subtree", "sweep"):
        if c["n"] >= 3 and c["N"] >= 3 and c["threshold"] > 0.7:
            c["threshold"] = 0.5
        if c["n"] >= 4:
            c["N"] = 2
            if c["threshold"] > 0.7:
                c["threshold"] = 0.5
    return c


def run_configs(ctx, configs, budget_s, mandatory=0):
    """The first `mandatory` configurations always run; the rest while the time budget (counted from here) lasts."""
    import time

    bridge.warm_up()
    t_start = time.time()
    done = 0
    skipped = 0
    trees = 0
    leaves = 0
    nontrivial = set()
    states_total = 0
    per_op = {}
    for ci, c in enumerate(configs):
        if ci >= mandatory and time.time() - t_start > budget_s:
            skipped += 1
            continue
        st, probs = kernelmat.run_config(c, deadline=None if ci < mandatory else t_start + budget_s + 45)
        if st is None:
            skipped += 1
            if probs:
                ctx.probe("symmetry_spot_check_failed_configuration_not_judged")
            continue
        done += 1
        if "orbit_representatives" in st:
            ctx.probe("configuration_traversed_through_orbit_representatives")
        trees += st["states"]
        leaves += st["leaves"]
        states_total += st["states"]
        per_op[c["op"]] = per_op.get(c["op"], 0) + 1
        if st["offdiag_transitions"] > 0:
            nontrivial.add(json.dumps(c, sort_keys=True))
        if c["outlier_prob"] > 0:
            ctx.probe("configuration_with_outlier_modelling")
            ctx.probe("start_state_holding_only_outliers")
        if c.get("threshold", 0) >= 1.0:
            ctx.probe("resampling_at_every_step")
        if c.get("threshold", 1) <= 0.0:
            ctx.probe("resampling_never")
        if c["wiring"] == "run" and c["op"] in ("pg", "subtree"):
            ctx.probe("sampler_built_by_run_setup_kernel_and_setup_samplers")
        ctx.sample({"config": c, "states": st["states"], "leaves": st["leaves"], "max_abs_residual": st["resid"]})
        ctx.cov.setdefault("worst_residual_where_held", 0.0)
        if not any(k.get("sub") == "invariance" for k, _, _ in probs) and st["complete"]:
            ctx.cov["worst_residual_where_held"] = max(ctx.cov["worst_residual_where_held"], st["resid"])
        seen = set()
        for key, detail, extra in probs:
            kj = json.dumps(key, sort_keys=True)
            if kj in seen:
                continue
            seen.add(kj)
            if ctx.findings.match(ctx.prop, key) is None and kj not in ctx._vio_keys and not ctx.replaying:
                cmin = kernelmat.minimise(c, key)
                if cmin != c:
                    st2, probs2 = kernelmat.run_config(cmin)
                    for k2, d2, _ in probs2:
                        if k2 == key:
                            detail = d2
                            break
            else:
                cmin = c
            rep = {"config": cmin, "key": key}
            if key.get("sub") == "invariance" and ctx.findings.match(ctx.prop, key) is None and not ctx.replaying and kj not in ctx._vio_keys:
                try:
                    st3, probs3 = kernelmat.run_config(cmin)
                    col = [e for k3, d3, e in probs3 if k3 == key][0]["column"]
                    rep["witness_column"] = models.canon_str(kernelmat.context(cmin)["canons"][col])
                    rep["heaviest_paths_into_witness"] = kernelmat.witness_paths(cmin, col) if cmin["n"] <= 3 else []
                except Exception:
                    pass
            ctx.violation(key, detail + " | config " + json.dumps(cmin, sort_keys=True), rep)
    ctx.cov["evaluations"] += trees
    ctx.cov["distinct_nontrivial"] += len(nontrivial)
    ctx.cov["configurations_traversed"] = ctx.cov.get("configurations_traversed", 0) + done
    ctx.cov["configurations_skipped_for_time"] = ctx.cov.get("configurations_skipped_for_time", 0) + skipped
    ctx.cov["outcome_trees_traversed_completely"] = ctx.cov.get("outcome_trees_traversed_completely", 0) + trees
    ctx.cov["leaves_visited"] = ctx.cov.get("leaves_visited", 0) + leaves
    ctx.cov["exhaustive_per_configuration"] = True
    ctx.cov["configurations_per_operation"] = per_op
    ctx.fault("rng.outcome", leaves)
    return done


def orbit_class_forests(desc, n):
    from sim import orbits
    from sim.statinv import tree_class

    if desc["kind"] == "singletons":
        return orbits.class_all_forests_of_singletons(n, desc.get("n_out", 0))
    if desc["kind"] == "structure":
        def tup(x):
            return tuple(tup(y) for y in x)
        return orbits.class_fixed_structure(tup(desc["structure"]), n, bool(desc.get("outliers")))
    if desc["kind"] == "all":
        d = {}
        for f in models.enumerate_forests(range(n), outliers=bool(desc.get("outliers"))):
            d.setdefault(tree_class(models.canon(f)), f)
        return list(d.values())
    raise ValueError(desc)


def run_orbit_classes(ctx, specs, max_leaves=400000):
    """Exact kernels on closed classes of larger trees, lumped by symmetry (sim/orbits.py)."""
    from sim import orbits

    out = []
    for c, desc in specs:
        st, probs = orbits.run_class(c, orbit_class_forests(desc, c["n"]), max_leaves=max_leaves)
        if st is None:
            ctx.probe("orbit_class_over_leaf_budget_not_judged")
            continue
        out.append({"config": {k: c[k] for k in ("op", "n", "alpha", "outlier_prob", "proposal", "N", "threshold", "wiring", "data_seed")}, "class": desc, **st})
        ctx.cov["evaluations"] += st["orbits"]
        ctx.cov["leaves_visited"] = ctx.cov.get("leaves_visited", 0) + st["leaves"]
        ctx.fault("rng.outcome", st["leaves"])
        for key, detail, extra in probs:
            ctx.violation(key, detail + " | config " + json.dumps(c, sort_keys=True) + " class " + json.dumps(desc), {"orbit": True, "config": c, "class": desc, "key": key})
    ctx.cov["orbit_lumped_exact_kernels"] = ctx.cov.get("orbit_lumped_exact_kernels", []) + out
    ctx.probe("labelled_states_represented_by_orbit_lumped_kernels", sum(o["labelled_states_represented"] for o in out))


def run_columns(ctx, specs):
    """Exact balance at single target trees of a dozen or more clones (sim/column.py).  specs: [(config, target seed, kind)]"""
    import random as _r

    from sim import column

    out = []
    for c, tseed, kind in specs:
        y = column.random_target(_r.Random(tseed), c["n"], kind)
        st, probs = column.run_column(c, y)
        if st is None:
            ctx.probe("column_over_leaf_budget_not_judged")
            continue
        out.append({"config": {k: c[k] for k in ("op", "n", "alpha", "outlier_prob", "data_seed", "style", "samples")}, "target_seed": tseed, "kind": kind, **st})
        ctx.cov["evaluations"] += st["predecessors"]
        ctx.cov["leaves_visited"] = ctx.cov.get("leaves_visited", 0) + st["leaves"]
        ctx.fault("rng.outcome", st["leaves"])
        for key, detail, extra in probs:
            ctx.violation(key, detail + " | config " + json.dumps(c, sort_keys=True), {"column": True, "config": c, "target_seed": tseed, "target_kind": kind, "key": key})
    ctx.cov["exact_balance_at_single_targets_of_large_trees"] = out
    ctx.probe("balance_checked_at_target_with_12_or_more_clones", sum(1 for o in out if o["clones"] >= 12))


def run_stat_configs(ctx, configs, M):
    """Sampled invariance on five data points with all-different likelihoods (see sim/statinv.py)."""
    from sim import statinv

    out = []
    for i, c in enumerate(configs):
        M_default = M
        c = dict(c)
        Mi = c.pop("stat_M", M_default)
        st, probs = statinv.run_stat(c, Mi, ctx.sub(("stat", i)))
        out.append({"config": c, **st})
        for key, detail, extra in probs:
            ctx.violation(key, detail + " | config " + json.dumps(c, sort_keys=True), {"stat": True, "config": c, "key": key, "M": Mi, "seed": ctx.sub(("stat", i))})
    ctx.cov["sampled_invariance_five_data_points"] = out
    ctx.probe("sampled_updates_from_exact_posterior_draws", sum(o["M"] for o in out))


def check_pinned(ctx):
    """Known findings identified by exact residuals of pinned configurations: a residual that moved is a new violation."""
    n = 0
    for f in ctx.findings.findings:
        if f.get("property") != ctx.prop:
            continue
        for pin in f.get("pinned", []):
            c = pin["config"]
            if ctx.tier == "quick" and pin.get("thorough_only"):
                continue
            st, probs = kernelmat.run_config(c)
            n += 1
            if st["resid"] <= kernelmat.TOL and st["complete"]:
                ctx.probe("pinned_configuration_now_exact")
                continue
            for key, detail, extra in probs:
                if ctx.findings.match(ctx.prop, key) is None:
                    ctx.violation(key, detail + " | config " + json.dumps(c, sort_keys=True), {"config": c, "key": key})
            if abs(st["resid"] - pin["resid"]) > 1e-9:
                key = dict(kernelmat.config_key(c), sub="pinned_residual_changed", finding=f["id"])
                ctx.violation(key, "residual of a configuration pinned by known finding %s is %.12g, recorded %.12g | config %s" % (
                    f["id"], st["resid"], pin["resid"], json.dumps(c, sort_keys=True)), {"config": c, "key": key, "pinned": pin["resid"]})
            else:
                ctx.violation(dict(kernelmat.config_key(c), sub="invariance"), "pinned configuration, residual %.6g as recorded" % st["resid"], {"config": c})
    ctx.cov["pinned_configurations_of_known_findings_checked"] = n


def replay(ctx, obj):
    if obj.get("orbit"):
        from sim import orbits

        bridge.warm_up()
        st, probs = orbits.run_class(obj["config"], orbit_class_forests(obj["class"], obj["config"]["n"]), max_leaves=3000000)
        for key, detail, extra in probs or []:
            if key == obj["key"]:
                ctx.violation(key, detail, obj)
                break
        ctx.cov["evaluations"] = 1
        return
    if obj.get("column"):
        import random as _r

        from sim import column

        bridge.warm_up()
        st, probs = column.run_column(obj["config"], column.random_target(_r.Random(obj["target_seed"]), obj["config"]["n"], obj["target_kind"]))
        for key, detail, extra in probs or []:
            if key == obj["key"]:
                ctx.violation(key, detail, obj)
                break
        ctx.cov["evaluations"] = 1
        return
    if obj.get("stat"):
        from sim import statinv

        bridge.warm_up()
        st, probs = statinv.run_stat(obj["config"], obj["M"], obj["seed"])
        for key, detail, extra in probs:
            if key == obj["key"]:
                ctx.violation(key, detail, obj)
        ctx.cov["evaluations"] = 1
        return
    if obj.get("key", {}).get("sub") == "pinned_residual_changed":
        bridge.warm_up()
        st, probs = kernelmat.run_config(obj["config"])
        if abs(st["resid"] - obj["pinned"]) > 1e-9 and st["resid"] > kernelmat.TOL:
            ctx.violation(obj["key"], "residual %.12g, recorded %.12g" % (st["resid"], obj["pinned"]), obj)
        ctx.cov["evaluations"] = 1
        return

    bridge.warm_up()
    for w in obj.get("heaviest_paths_into_witness", []):
        end, p = kernelmat.replay_path(obj["config"], w["start_index"], w["script"])
        print("replayed path from %s: script of %d choices -> %s with probability %.6g (recorded %.6g)" % (
            w["start"], len(w["script"]), end, p, w["probability"]))
        if end != obj.get("witness_column") or abs(p - w["probability"]) > 1e-12:
            raise runner.HarnessError("a recorded path does not replay exactly")
    st, probs = kernelmat.run_config(obj["config"])
    for key, detail, extra in probs:
        if key == obj["key"]:
            ctx.violation(key, detail, obj)
            break
    ctx.cov["evaluations"] = 1

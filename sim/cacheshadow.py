"""Cache shadow (C14): every memoised entry point is re-wrapped (with a per-run cache size) so that each call also
evaluates the unmemoised original on the same arguments at that moment and compares."""
import functools

import numpy as np

from sim import bridge, models, monitors

SITES = {
    "compute_log_S": ["phyclone.tree.utils", "phyclone.tree.tree_node", "phyclone.utils.dev"],
    "_convolve_two_children": ["phyclone.tree.utils", "phyclone.utils.dev"],
    "_get_cached_semi_proposal_dist": ["phyclone.smc.kernels.semi_adapted", "phyclone.utils.dev"],
    "_get_cached_full_proposal_dist": ["phyclone.smc.kernels.fully_adapted", "phyclone.utils.dev"],
    "get_cached_new_tree": ["phyclone.smc.kernels.semi_adapted", "phyclone.utils.dev"],
}


def proposal_signature(dist):
    """{canonical tree: log_q} of a (semi / fully) adapted proposal distribution, plus its sampling vector."""
    sig = {}
    for th, lq in dist._log_p.items():
        sig[bridge.canon_tree(th.tree)] = float(lq)
    extra = None
    if hasattr(dist, "_q_dist"):
        extra = (np.array(dist._q_dist), [bridge.canon_tree(t.tree) for t in dist._curr_trees], bool(dist.parent_is_empty_tree))
    return sig, extra


class CacheShadow(object):
    def __init__(self, sizes):
        """sizes: {name: maxsize or 'shipped' or 'off'}"""
        self.sizes = sizes
        self.saved = []
        self.calls = {k: 0 for k in SITES}
        self.problems = []
        self.sigs = set()
        self.wrapped = {}
        self.depth = 0
        self.enabled = True

    def problem(self, cache, sub, detail):
        if len(self.problems) < 3:
            self.problems.append(({"cache": cache, "sub": sub}, detail))

    # ------------------------------------------------------------------ install
    def install(self):
        import importlib

        import phyclone.tree.utils as tu
        import phyclone.smc.kernels.semi_adapted as sa
        import phyclone.smc.kernels.fully_adapted as fa
        from phyclone.utils.utils import list_of_np_cache, two_np_arr_cache

        shipped = {"compute_log_S": 4096, "_convolve_two_children": 1024, "_get_cached_semi_proposal_dist": 1024,
                   "_get_cached_full_proposal_dist": 1024, "get_cached_new_tree": 1024}
        origs = {"compute_log_S": tu.compute_log_S.__wrapped__, "_convolve_two_children": tu._convolve_two_children.__wrapped__,
                 "_get_cached_semi_proposal_dist": sa._get_cached_semi_proposal_dist.__wrapped__,
                 "_get_cached_full_proposal_dist": fa._get_cached_full_proposal_dist.__wrapped__,
                 "get_cached_new_tree": sa.get_cached_new_tree.__wrapped__}
        self.origs = origs
        shipped_fns = {"compute_log_S": tu.compute_log_S, "_convolve_two_children": tu._convolve_two_children,
                       "_get_cached_semi_proposal_dist": sa._get_cached_semi_proposal_dist,
                       "_get_cached_full_proposal_dist": fa._get_cached_full_proposal_dist, "get_cached_new_tree": sa.get_cached_new_tree}
        for name, orig in origs.items():
            size = self.sizes.get(name, "shipped")
            if size == "as_shipped":
                # the repository's own memoised object, exactly as decorated at import time (state captured then is kept)
                memo = shipped_fns[name]
                shadow = self.make_shadow(name, memo, orig)
                shadow.cache_clear = memo.cache_clear
                shadow.cache_info = memo.cache_info
                shadow.__wrapped__ = orig
                self.wrapped[name] = memo
                for modname in SITES[name]:
                    mod = importlib.import_module(modname)
                    if hasattr(mod, name):
                        self.saved.append((mod, name, getattr(mod, name)))
                        setattr(mod, name, shadow)
                continue
            if size == "shipped":
                size = shipped[name]
            if size == "off":
                size = 0
            if name == "compute_log_S":
                memo = list_of_np_cache(maxsize=size)(orig)
            elif name == "_convolve_two_children":
                memo = two_np_arr_cache(maxsize=size)(orig)
            else:
                memo = functools.lru_cache(maxsize=size)(orig)
            shadow = self.make_shadow(name, memo, orig)
            shadow.cache_clear = memo.cache_clear
            shadow.cache_info = memo.cache_info
            shadow.__wrapped__ = orig
            self.wrapped[name] = memo
            for modname in SITES[name]:
                mod = importlib.import_module(modname)
                if hasattr(mod, name):
                    self.saved.append((mod, name, getattr(mod, name)))
                    setattr(mod, name, shadow)
        return self

    def uninstall(self):
        for mod, name, val in reversed(self.saved):
            setattr(mod, name, val)
        self.saved = []

    def info(self):
        return {k: tuple(v.cache_info()) for k, v in self.wrapped.items()}

    # ------------------------------------------------------------------ shadows
    def make_shadow(self, name, memo, orig):
        sh = self

        if name == "compute_log_S":
            def shadow(child_log_R_values):
                res = memo(child_log_R_values)
                if not sh.enabled:
                    return res
                sh.calls[name] += 1
                want = orig(np.array(child_log_R_values, order="C"))
                if not monitors.close(res, want, atol=1e-9, rtol=1e-9):
                    sh.problem(name, "value_differs", "memoised compute_log_S differs from recomputation by %.3g for %d children" % (
                        monitors.max_diff(res, want), len(child_log_R_values)))
                return res
        elif name == "_convolve_two_children":
            def shadow(child_1, child_2):
                res = memo(child_1, child_2)
                if not sh.enabled:
                    return res
                sh.calls[name] += 1
                want = orig(child_1, child_2)
                if not monitors.close(res, want, atol=1e-9, rtol=1e-9):
                    sh.problem(name, "value_differs", "memoised _convolve_two_children differs from recomputation by %.3g" % monitors.max_diff(res, want))
                return res
        elif name in ("_get_cached_semi_proposal_dist", "_get_cached_full_proposal_dist"):
            # generic in the argument list (a refactor may change the key): (data_point, kernel, parent_particle, ...)
            def shadow(*args):
                parent_particle = next((a for a in args if hasattr(a, "_built_tree")), None)
                kernel = next((a for a in args if hasattr(a, "tree_dist") and hasattr(a, "get_proposal_distribution")), None)
                saved = list(parent_particle._built_tree) if parent_particle is not None else None
                res = memo(*args)
                if not sh.enabled:
                    return res
                sh.calls[name] += 1
                after = list(parent_particle._built_tree) if parent_particle is not None else None
                sh.enabled = False  # the recomputation below must not be shadow-checked recursively against itself
                try:
                    if parent_particle is not None:
                        parent_particle._built_tree.clear()
                        parent_particle._built_tree.extend(saved)
                        if not saved:
                            parent_particle._built_tree.append(None)
                    want = orig(*args)
                    a, ea = proposal_signature(res)
                    b, eb = proposal_signature(want)
                finally:
                    sh.enabled = True
                    if parent_particle is not None:
                        parent_particle._built_tree.clear()
                        parent_particle._built_tree.extend(after)
                sh.sigs.add((name, len(a), parent_particle is None))
                alpha_now = kernel.tree_dist.prior.alpha if kernel is not None else None
                if set(a) != set(b):
                    sh.problem(name, "support_differs", "memoised proposal has support of %d trees, recomputation %d (alpha=%r)" % (len(a), len(b), alpha_now))
                else:
                    for k in a:
                        if not (abs(a[k] - b[k]) <= 1e-9 * max(1.0, abs(b[k]))):
                            sh.problem(name, "log_p_differs", "memoised proposal gives log_q %.12g for %s, recomputation under the current alpha=%r gives %.12g" % (
                                a[k], models.canon_str(k), alpha_now, b[k]))
                            break
                    if ea is not None and eb is not None:
                        if ea[2] != eb[2] or len(ea[0]) != len(eb[0]) or sorted(map(repr, ea[1])) != sorted(map(repr, eb[1])):
                            sh.problem(name, "existing_dist_differs", "memoised semi-adapted proposal's existing-clone distribution differs in shape")
                        else:
                            da = dict(zip(map(repr, ea[1]), ea[0]))
                            db = dict(zip(map(repr, eb[1]), eb[0]))
                            if any(abs(da[k] - db[k]) > 1e-9 for k in da):
                                sh.problem(name, "existing_dist_differs", "memoised semi-adapted proposal's existing-clone probabilities differ")
                return res
        else:
            def shadow(*args):
                res = memo(*args)
                if not sh.enabled:
                    return res
                sh.calls[name] += 1
                sh.enabled = False
                try:
                    want = orig(*args)
                    ca, cb = bridge.canon_tree(res.tree), bridge.canon_tree(want.tree)
                finally:
                    sh.enabled = True
                td = next((a for a in args if hasattr(a, "prior")), None)
                if td is None:
                    kern = next((a for a in args if hasattr(a, "tree_dist")), None)
                    td = kern.tree_dist if kern is not None else None
                if ca != cb:
                    sh.problem(name, "tree_differs", "memoised new-clone tree %s, recomputation %s" % (models.canon_str(ca), models.canon_str(cb)))
                else:
                    for attr in ("log_p", "log_p_one", "log_pdf"):
                        x, y = float(getattr(res, attr)), float(getattr(want, attr))
                        if not (abs(x - y) <= 1e-9 * max(1.0, abs(y))):
                            sh.problem(name, attr + "_differs", "memoised new-clone tree has %s=%.12g, recomputation under alpha=%r gives %.12g" % (
                                attr, x, td.prior.alpha if td is not None else None, y))
                            break
                return res
        return shadow

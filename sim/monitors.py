"""Invariants evaluated while a run proceeds.  Installed by wrapping methods from the harness; nothing in /repo is edited.
Monitors never draw from a PRNG and never read a clock."""
import functools

import numpy as np
import rustworkx as rx


def wellformed(tree, expected=None):
    """C07 predicate.  Returns a list of (code, message); empty when the tree is a well-formed forest."""
    P = []
    g = tree._graph
    root_name = tree.root_node_name
    out_name = tree.outlier_node_name
    idxs = list(g.node_indices())
    by_name = {}
    for i in idxs:
        by_name.setdefault(g[i].node_id, []).append(i)
    dup = [n for n, l in by_name.items() if len(l) > 1]
    if dup:
        P.append(("dup_name", "node name %r carried by %d graph nodes" % (dup[0], len(by_name[dup[0]]))))
    if root_name not in by_name:
        P.append(("no_root", "no payload named root"))
        return P
    ri = by_name[root_name][0]
    if g.in_degree(ri) != 0:
        P.append(("root_has_parent", "root has in-degree %d" % g.in_degree(ri)))
    for i in idxs:
        if i != ri and g.in_degree(i) != 1:
            P.append(("in_degree", "clone %r has %d parents" % (g[i].node_id, g.in_degree(i))))
            break
    reach = set(rx.descendants(g, ri)) | {ri}
    if reach != set(idxs):
        P.append(("unreachable", "%d nodes not reachable from root" % len(set(idxs) - reach)))
    if g.num_edges() != len(idxs) - 1:
        P.append(("edge_count", "%d edges for %d nodes" % (g.num_edges(), len(idxs))))
    ni, nr = tree._node_indices, tree._node_indices_rev
    if set(ni.keys()) != set(by_name.keys()):
        P.append(("index_keys", "_node_indices keys %r != payload names %r" % (sorted(map(str, ni)), sorted(map(str, by_name)))))
    if set(nr.keys()) != set(idxs):
        P.append(("index_rev_keys", "_node_indices_rev keys %r != graph indices %r" % (sorted(nr), sorted(idxs))))
    for name, i in ni.items():
        if nr.get(i, object()) != name:
            P.append(("index_inverse", "_node_indices[%r]=%r but _node_indices_rev[%r]=%r" % (name, i, i, nr.get(i))))
            break
        if i in idxs and g[i].node_id != name:
            P.append(("payload_name", "graph[%r].node_id=%r but index map says %r" % (i, g[i].node_id, name)))
            break
    data = tree._data
    seen = {}
    for name, lst in data.items():
        ids = [dp.idx for dp in lst]
        if len(ids) != len(set(ids)):
            P.append(("dup_in_list", "data list of %r holds a data point twice: %r" % (name, ids)))
        if name == root_name:
            if ids:
                P.append(("root_data", "virtual root holds data %r" % ids))
            continue
        if name != out_name and name not in by_name:
            P.append(("ghost_key", "_data has key %r (%d points) which is not a live clone" % (name, len(ids))))
            continue
        for d in ids:
            if d in seen:
                P.append(("dup_point", "data point %r in %r and in %r" % (d, seen[d], name)))
            seen[d] = name
        if name != out_name:
            pl = g[by_name[name][0]].data_points
            if set(ids) != set(pl):
                P.append(("payload_data", "clone %r: _data says %r, payload says %r" % (name, sorted(ids), sorted(pl))))
    for name, l in by_name.items():
        if name != root_name and name not in data and len(g[l[0]].data_points) > 0:
            P.append(("payload_data", "clone %r has payload data %r but no _data entry" % (name, sorted(g[l[0]].data_points))))
    if expected is not None and set(seen) != set(expected):
        P.append(("conservation", "tree holds data points %r, expected %r" % (sorted(seen), sorted(expected))))
    # public read API agrees with the graph
    try:
        if sorted(map(str, tree.nodes)) != sorted(str(n) for n in by_name if n != root_name):
            P.append(("api_nodes", "Tree.nodes disagrees with graph payloads"))
        if sorted(map(str, tree.roots)) != sorted(str(g[c].node_id) for c in g.successor_indices(ri)):
            P.append(("api_roots", "Tree.roots disagrees with graph"))
        for name, l in by_name.items():
            if name == root_name or len(l) != 1:
                continue
            i = l[0]
            preds = [g[p].node_id for p in g.predecessor_indices(i)]
            if len(preds) == 1 and tree.get_parent(name) != preds[0]:
                P.append(("api_parent", "get_parent(%r)=%r, graph says %r" % (name, tree.get_parent(name), preds[0])))
            if sorted(map(str, tree.get_children(name))) != sorted(str(g[c].node_id) for c in g.successor_indices(i)):
                P.append(("api_children", "get_children(%r) disagrees with graph" % (name,)))
        lab = tree.labels
        if {int(k): v for k, v in lab.items()} != {int(k): v for k, v in seen.items()} and not any(c in ("dup_point", "ghost_key") for c, _ in P):
            P.append(("api_labels", "Tree.labels %r disagrees with _data %r" % (lab, seen)))
    except Exception as e:
        P.append(("api_exception", "read API raised %s: %s" % (type(e).__name__, e)))
    return P


def node_arrays(tree):
    """{frozenset(own data): (log_p, log_r)} for every clone, plus 'root' -> log_r."""
    g = tree._graph
    out = {}
    for i in g.node_indices():
        pl = g[i]
        if pl.node_id == tree.root_node_name:
            # the virtual root's vector is only defined (and only read by the densities) when it has children
            if g.out_degree(i) > 0:
                out["root"] = (None, np.array(pl.log_r))
        else:
            out[frozenset(int(d) for d in pl.data_points)] = (np.array(pl.log_p), np.array(pl.log_r))
    return out


def close(a, b, atol=1e-8, rtol=1e-9):
    a = np.asarray(a, dtype=np.float64)
    b = np.asarray(b, dtype=np.float64)
    if a.shape != b.shape:
        return False
    with np.errstate(invalid="ignore"):
        same_inf = (a == b)
        d = np.abs(a - b)
        ok = same_inf | (d <= atol + rtol * np.abs(b))
    return bool(np.all(ok))


def close_above_floor(a, b, atol=1e-6, floor=1e-4):
    """Comparison for vectors produced through the FFT convolution (grids from 1000 points): C02 promises agreement only for
    entries above ~1e-6 of the row peak (cumulative sums over nested clones spread a row over many orders of magnitude even
    for flat data), so only entries within `floor` of the row peak of the reference are compared."""
    a = np.asarray(a, dtype=np.float64)
    b = np.asarray(b, dtype=np.float64)
    if a.shape != b.shape:
        return False
    peak = np.max(b, axis=-1, keepdims=True)
    mask = b >= peak + np.log(floor)
    with np.errstate(invalid="ignore"):
        ok = (np.abs(a - b) <= atol + 1e-9 * np.abs(b)) | (a == b)
    return bool(np.all(ok | ~mask))


def max_diff(a, b):
    a = np.asarray(a, dtype=np.float64)
    b = np.asarray(b, dtype=np.float64)
    with np.errstate(invalid="ignore"):
        d = np.abs(a - b)
        d = np.where(a == b, 0.0, d)
    return float(np.nanmax(d)) if d.size else 0.0


TREE_METHODS = ["add_data_point_to_node", "add_data_point_to_outliers", "create_root_node", "add_subtree", "remove_subtree",
                "remove_data_point_from_node", "remove_data_point_from_outliers", "relabel_nodes", "update", "copy", "get_subtree"]
TREE_CLASSMETHODS = ["from_dict"]
TREE_STATIC = ["get_single_node_tree"]


class TreeMonitor(object):
    """Wraps the public mutating / constructing Tree methods; `on_event(name, tree)` is called when the OUTERMOST
    wrapped call returns (composite operations are legitimately inconsistent inside)."""

    def __init__(self, on_event):
        self.on_event = on_event
        self.depth = 0
        self.calls = 0
        self._saved = {}
        self.enabled = True

    def install(self):
        from phyclone.tree import Tree

        mon = self

        def wrap(name, fn, kind):
            @functools.wraps(fn)
            def w(*a, **k):
                mon.depth += 1
                try:
                    res = fn(*a, **k)
                finally:
                    mon.depth -= 1
                if mon.depth == 0 and mon.enabled:
                    mon.calls += 1
                    if kind == "method":
                        target = res if name in ("copy", "get_subtree") else a[0]
                    else:
                        target = res
                    mon.enabled = False
                    try:
                        mon.on_event(name, target)
                    finally:
                        mon.enabled = True
                return res

            return w

        for n in TREE_METHODS:
            self._saved[n] = Tree.__dict__[n]
            setattr(Tree, n, wrap(n, Tree.__dict__[n], "method"))
        for n in TREE_CLASSMETHODS:
            self._saved[n] = Tree.__dict__[n]
            f = Tree.__dict__[n].__func__
            setattr(Tree, n, classmethod(wrap(n, f, "cls")))
        for n in TREE_STATIC:
            self._saved[n] = Tree.__dict__[n]
            f = Tree.__dict__[n].__func__
            setattr(Tree, n, staticmethod(wrap(n, f, "static")))
        return self

    def uninstall(self):
        from phyclone.tree import Tree

        for n, v in self._saved.items():
            setattr(Tree, n, v)
        self._saved = {}

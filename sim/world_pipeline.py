"""The pipeline world: input files -> phyclone.run.run (burn-in, particle Gibbs sweeps, concentration update, trace)
-> trace file -> map / consensus / topology-report, in one process, real code, with the clock (T), the chain
executor (P), the trace file (F) and the memo caches (M) decided by the simulator."""
from sim.runner import HarnessError as _HarnessError
import contextlib
import errno
import gzip as real_gzip
import io
import math
import os
import pickle
import random
import shutil
import tarfile
import tempfile
import traceback
import types

import numpy as np

from sim import bridge, models, monitors, trace_model


# ------------------------------------------------------------------------------------------------ devices
class SimClock(object):
    """Read k returns T_k; T_0 = 0, T_k = T_{k-1} + deltas[k-1] (last delta repeats).  No real clock anywhere."""

    def __init__(self, deltas):
        self.deltas = list(deltas)
        self.reads = 0
        self.T = 0.0

    def __call__(self):
        if self.reads > 0:
            k = self.reads
            d = self.deltas[k - 1] if k - 1 < len(self.deltas) else (self.deltas[-1] if self.deltas else 0.0)
            self.T += d
        self.reads += 1
        return self.T


class WorkerFailure(Exception):
    pass


class SimFuture(object):
    def __init__(self, fn, args, idx, late_pickle=False):
        self.fn = fn
        # arguments cross a process boundary.  A real pool stores a REFERENCE at submit and a feeder thread pickles it some time
        # later - before or after the caller's next statements; the schedule decides which (late_pickle).
        self.args = args
        self.args_pickled = None if late_pickle else pickle.dumps(args, protocol=pickle.HIGHEST_PROTOCOL)
        self.idx = idx
        self._res = None
        self._exc = None
        self.done = False

    def run(self):
        if self.args_pickled is None:
            self.args_pickled = pickle.dumps(self.args, protocol=pickle.HIGHEST_PROTOCOL)
        args = pickle.loads(self.args_pickled)
        try:
            res = self.fn(*args)
            self._res = pickle.loads(pickle.dumps(res, protocol=pickle.HIGHEST_PROTOCOL))  # and so does the result
        except BaseException as e:
            self._exc = e
        self.done = True

    def exception(self):
        return self._exc

    def result(self):
        if self._exc is not None:
            raise self._exc
        return self._res


class SimExecutor(object):
    """Stands in for ProcessPoolExecutor + as_completed inside phyclone.run.  The schedule decides the start order,
    which chains share a (simulated) worker - i.e. run with the memo caches another chain left behind - and the
    completion order.  One simulated worker = one set of module-level memo caches; a fresh worker starts with them empty."""

    def __init__(self, schedule, stats, hist=None):
        self.schedule = schedule  # dict(start_order=[...], worker_of=[...], finish_order=[...], fail_chain=None)
        self.futures = []
        self.stats = stats
        self.hist = hist

    def __call__(self, max_workers=None, mp_context=None):
        self.max_workers = max_workers
        self.mp_context = mp_context
        return self

    def __enter__(self):
        return self

    def __exit__(self, *a):
        return False

    def submit(self, fn, *args):
        late = bool(self.schedule.get("late_pickle"))
        if late:
            self.stats["arguments_pickled_after_submit_returned"] = self.stats.get("arguments_pickled_after_submit_returned", 0) + 1
        f = SimFuture(fn, args, len(self.futures), late_pickle=late)
        self.futures.append(f)
        return f

    def as_completed(self, futs):
        futs = list(futs)
        k = len(futs)
        sch = self.schedule
        start = [i for i in sch.get("start_order", range(k)) if i < k] or list(range(k))
        worker_of = sch.get("worker_of") or list(range(k))
        groups = []  # [(worker, [chains in the order they start on it])], workers in order of first use
        for i in start:
            w = worker_of[i] if i < len(worker_of) else i
            for g in groups:
                if g[0] == w:
                    g[1].append(i)
                    self.stats["worker_reused"] = self.stats.get("worker_reused", 0) + 1  # same worker: module state stays warm
                    break
            else:
                groups.append((w, [i]))
        import threading

        use_fork = hasattr(os, "fork") and threading.active_count() == 1 and not sch.get("in_process")
        for w, chain_list in groups:
            if use_fork:
                self._run_group_forked(futs, chain_list, sch)
            else:
                bridge.clear_caches()  # a fresh worker starts with empty memo caches (in-process fallback)
                for i in chain_list:
                    self._run_one(futs, i, sch)
        self.stats["workers_simulated"] = self.stats.get("workers_simulated", 0) + len(groups)
        if self.hist is not None:
            self.hist["fork_isolation"] = bool(use_fork)
        fin = [i for i in sch.get("finish_order", range(k)) if i < k] or list(range(k))
        if fin != sorted(fin):
            self.stats["finished_out_of_order"] = self.stats.get("finished_out_of_order", 0) + 1
        if start != sorted(start):
            self.stats["started_out_of_order"] = self.stats.get("started_out_of_order", 0) + 1
        for i in fin:
            yield futs[i]

    @staticmethod
    def failure(sch, i):
        """What a real pool reports when a chain's worker fails: the chain's own exception, MemoryError, a broken pool ..."""
        kind = sch.get("fail_kind", "custom")
        msg = "simulated worker died while running chain %d" % i
        if kind == "memory":
            return MemoryError(msg)
        if kind in ("broken_pool", "killed"):
            from concurrent.futures.process import BrokenProcessPool

            return BrokenProcessPool("A process in the process pool was terminated abruptly while the future was running or pending. (" + msg + ")")
        if kind == "oserror":
            return OSError(errno.EIO, msg)
        return WorkerFailure(msg)

    def _run_one(self, futs, i, sch):
        if sch.get("fail_chain") == i:
            futs[i]._exc = self.failure(sch, i)
            futs[i].done = True
            self.stats["worker_failed"] = self.stats.get("worker_failed", 0) + 1
        else:
            futs[i].run()

    def _run_group_forked(self, futs, chain_list, sch):
        """One simulated worker = one forked child of the (warm, cache-cleared) simulator process: real address-space
        isolation between workers; chains scheduled on the same worker run one after the other inside it."""
        hist = self.hist
        rfd, wfd = os.pipe()
        bridge.clear_caches()
        pid = os.fork()
        if pid == 0:
            code = 0
            try:
                os.close(rfd)
                if hist is not None:
                    hist["_clocks"] = []
                    hist["conc_calls"], hist["appended"], hist["post_burnin"] = [], [], []
                    hist["iter_calls"] = {"burnin": 0, "main": 0}
                    hist["main_iters_by_chain"] = {}
                out = []
                for i in chain_list:
                    if sch.get("fail_chain") == i:
                        out.append((i, None, ("WorkerFailure", "simulated worker died while running chain %d" % i, ""), True))
                        continue
                    futs[i].run()
                    e = futs[i]._exc
                    out.append((i, futs[i]._res, None if e is None else (type(e).__name__, str(e)[:300], innermost_phyclone_frame(e)), False))
                delta = None if hist is None else {k: hist.get(k) for k in ("conc_calls", "appended", "post_burnin", "iter_calls", "main_iters_by_chain")}
                if delta is not None:
                    delta["clock_stats"] = [(c.reads, c.T) for c in hist.get("_clocks", [])]
                payload = pickle.dumps((out, delta), protocol=pickle.HIGHEST_PROTOCOL)
                with os.fdopen(wfd, "wb") as fh:
                    fh.write(payload)
            except BaseException:
                code = 1
            finally:
                os._exit(code)
        os.close(wfd)
        chunks = []
        import select
        import signal
        import time as _time

        t_end = _time.time() + 780  # below the pool worker's own backstop: a silent simulated worker is named, not waited for
        with os.fdopen(rfd, "rb", buffering=0) as fh:
            while True:
                left = t_end - _time.time()
                ready = select.select([fh], [], [], max(0.0, left))[0] if left > 0 else []
                if not ready:
                    try:
                        os.kill(pid, signal.SIGKILL)
                    except OSError:
                        pass
                    os.waitpid(pid, 0)
                    from sim import runner as _runner

                    raise _runner.HarnessError("a simulated worker (chains %r) was still running after 780 s of wall clock and was killed; nothing is concluded for this run" % (list(chain_list),))
                b = fh.read(1 << 20)
                if not b:
                    break
                chunks.append(b)
        os.waitpid(pid, 0)
        data = b"".join(chunks)
        if not data:
            for i in chain_list:
                futs[i]._exc = ChainError("SimulatedWorkerCrash", "the forked worker produced no result", "")
                futs[i].done = True
            return
        out, delta = pickle.loads(data)
        for i, res, err, failed in out:
            if failed:
                futs[i]._exc = self.failure(sch, i)
                self.stats["worker_failed"] = self.stats.get("worker_failed", 0) + 1
            elif err is not None:
                futs[i]._exc = ChainError(*err)
            else:
                futs[i]._res = res
            futs[i].done = True
        if hist is not None and delta is not None:
            hist["conc_calls"] += delta["conc_calls"]
            hist["appended"] += delta["appended"]
            hist["post_burnin"] += delta["post_burnin"]
            for kk, v in delta["iter_calls"].items():
                hist["iter_calls"][kk] = hist["iter_calls"].get(kk, 0) + v
            hist.setdefault("main_iters_by_chain", {}).update(delta["main_iters_by_chain"])
            hist.setdefault("_clock_stats", []).extend(delta.get("clock_stats", []))


class ChainError(Exception):
    """An exception raised inside a simulated worker, carried across the process boundary with its type name and the
    innermost phyclone frame (a real pool also loses the traceback object)."""

    def __init__(self, type_name, msg, where):
        super().__init__("%s: %s" % (type_name, msg))
        self.type_name = type_name
        self.msg = msg
        self.where = where


class ProcessKilled(BaseException):
    """Simulated death of the writing process (not an Exception: nothing in the code under test may catch it)."""


class FaultyFile(io.RawIOBase):
    """The 'disk': accepts bytes until the fault offset, then raises ENOSPC or simulates process death.
    Whatever was accepted is the durable image."""

    def __init__(self, fs, path, fault):
        self.fs = fs
        self.path = path
        self.buf = bytearray()
        self.fault = fault  # None | ("enospc", k) | ("kill", k)

    def writable(self):
        return True

    def write(self, b):
        b = bytes(b)
        if self.fault is not None:
            kind, k = self.fault
            room = k - len(self.buf)
            if len(b) > room:
                self.buf += b[: max(0, room)]
                self.fs.images[self.path] = bytes(self.buf)
                self.fs.fired[kind] = self.fs.fired.get(kind, 0) + 1
                if kind == "enospc":
                    raise OSError(errno.ENOSPC, "No space left on device (simulated)")
                raise ProcessKilled("simulated kill after %d bytes" % k)
        self.buf += b
        return len(b)

    def close(self):
        if not self.closed:
            self.fs.images[self.path] = bytes(self.buf)
        super().close()


class SimFS(object):
    """The simulated disk under the trace writer.  Two seams are taken over inside phyclone.process_trace.process_trace:
    the module's `gzip` (GzipFile / open by path) and the module-level name `open` (for writers that open the file
    themselves and hand a file object to gzip).  Managed paths live in memory as images; every other path is the real disk."""

    def __init__(self):
        self.images = {}
        self.managed = set()
        self.write_fault = None
        self.fired = {}

    def manage(self, path):
        self.managed.add(str(path))

    def _raw_write(self, path):
        return FaultyFile(self, path, self.write_fault)

    def GzipFile(self, filename=None, mode=None, compresslevel=9, fileobj=None, mtime=None):
        if fileobj is not None:
            return real_gzip.GzipFile(filename=filename if isinstance(filename, str) else "", mode=mode, compresslevel=compresslevel,
                                      fileobj=fileobj, mtime=0 if (mode and "w" in mode) else mtime)
        path = str(filename)
        mode = mode or "rb"
        if path in self.managed and ("w" in mode or "a" in mode or "x" in mode):
            return real_gzip.GzipFile(filename="", mode="wb", fileobj=self._raw_write(path), mtime=0)
        if path in self.images:
            return real_gzip.GzipFile(fileobj=io.BytesIO(self.images[path]), mode="rb")
        if path in self.managed:
            raise FileNotFoundError(errno.ENOENT, "No such file (simulated disk)", path)
        return real_gzip.GzipFile(filename, mode, compresslevel, None, mtime)

    def gzip_open(self, filename, mode="rb", *a, **k):
        path = str(filename)
        if path in self.managed or path in self.images:
            if "t" in mode:
                return io.TextIOWrapper(self.GzipFile(path, mode.replace("t", "")))
            return self.GzipFile(path, mode)
        return real_gzip.open(filename, mode, *a, **k)

    def open(self, file, mode="r", *a, **k):
        path = str(file)
        if path in self.managed and "b" in mode:
            if "w" in mode or "a" in mode or "x" in mode:
                return self._raw_write(path)
            if path in self.images:
                return io.BytesIO(self.images[path])
            raise FileNotFoundError(errno.ENOENT, "No such file (simulated disk)", path)
        import builtins

        return builtins.open(file, mode, *a, **k)

    def module(self):
        m = types.ModuleType("gzip_shim")
        m.GzipFile = self.GzipFile
        m.BadGzipFile = real_gzip.BadGzipFile
        m.open = self.gzip_open
        m.compress = real_gzip.compress
        m.decompress = real_gzip.decompress
        return m

    def install(self, P, ppt):
        P.set(ppt, "gzip", self.module())
        P.set(ppt, "open", self.open)


# ------------------------------------------------------------------------------------------------ inputs
def gen_inputs(r, n_mut=None, n_samples=None, clustered=None, exotic=False, sample_scheme=None):
    n_mut = n_mut if n_mut is not None else r.choice([1, 2, 3, 4, 5, 6, 8])
    n_samples = n_samples if n_samples is not None else r.choice([1, 1, 2, 3])
    scheme = r.choice(["S", "S", "rev", "num"])
    scheme = sample_scheme or scheme
    if scheme == "S":
        samples = ["S%d" % (i + 1) for i in range(n_samples)]
    elif scheme == "rev":
        samples = ["S10", "S2", "S1"][:n_samples]  # string order differs from numeric / file order
    elif exotic:
        b = r.choice(["2", "0", "7"])  # numeric ids (time points) one of which is a suffix of another: "2", "12", "112"
        samples = r.sample([b, "1" + b, "11" + b, "2" + b, "21" + b], n_samples)
    else:
        samples = ["%d" % (7 * (i + 1)) for i in range(n_samples)]  # numeric-looking sample ids
    tc = {s: round(r.uniform(0.4, 1.0), 2) for s in samples}
    rows = []
    id_scheme = r.choice(["m", "m", "m", "gene"])

    if exotic:
        id_scheme = r.choice(["m", "gene", "odd"])

    def mut_name(m):
        if id_scheme == "odd":
            return ["g\u00e8ne %d" % m, 'q"%d"' % m, "a,b;%d" % m, "%d" % (100 - m)][m % 4]  # unicode, quotes, separators, numeric-looking
        return "m%02d" % m if id_scheme == "m" else "chr%d:%d:A>T" % (1 + m % 3, 1000 * (10 - m))  # ids whose sort order is not the creation order

    style = r.choice(["normal", "normal", "identical", "depth0"])
    base = None
    for m in range(n_mut):
        ccf = r.choice([1.0, 0.8, 0.5, 0.3, 0.1])
        for s in samples:
            if style == "identical" and base is not None:
                ref, alt, major, minor = base
            else:
                depth = r.choice([0, 5, 30, 100, 400]) if style == "depth0" and r.random() < 0.3 else r.choice([20, 50, 100, 300])
                major = r.choice([1, 1, 2, 3])
                minor = r.choice([m_ for m_ in (0, 1, 2) if m_ <= major])
                vaf = min(0.95, max(0.0, ccf * tc[s] / (major + minor + 0.0001) * r.uniform(0.7, 1.3)))
                alt = sum(1 for _ in range(depth) if r.random() < vaf)
                ref = depth - alt
                if base is None:
                    base = (ref, alt, major, minor)
            rows.append({"mutation_id": mut_name(m), "sample_id": s, "ref_counts": ref, "alt_counts": alt, "major_cn": major,
                         "minor_cn": minor, "normal_cn": 2, "tumour_content": tc[s], "error_rate": 0.001})
    cols = ["mutation_id", "sample_id", "ref_counts", "alt_counts", "major_cn", "minor_cn", "normal_cn"]
    if r.random() < 0.6:
        cols.append("tumour_content")
    if r.random() < 0.3:
        cols.append("error_rate")
    r.shuffle(rows)
    inp = {"rows": rows, "cols": cols, "sep": r.choice(["\t", "\t", ","]), "samples": samples, "cluster_rows": None}
    clustered = (r.random() < 0.35) if clustered is None else clustered
    if clustered and n_mut >= 2:
        k = r.randint(1, min(4, n_mut))
        ids = r.sample(range(0, 12), k)
        cl = {}
        for m in range(n_mut):
            cl[mut_name(m)] = ids[m % k] if m < k else r.choice(ids)
        crow = []
        for m, c in cl.items():
            for s in samples:
                crow.append({"mutation_id": m, "sample_id": s, "cluster_id": c})
        inp["cluster_rows"] = crow
        inp["cluster_extra_cols"] = exotic and r.random() < 0.5
    return inp


def write_inputs(d, inp):
    p = os.path.join(d, "input.tsv")
    import csv as _csv

    with open(p, "w", newline="") as fh:
        w = _csv.writer(fh, delimiter=inp["sep"])
        w.writerow(inp["cols"])
        for row in inp["rows"]:
            w.writerow([row[c] for c in inp["cols"]])
    cp = None
    if inp.get("cluster_rows"):
        cp = os.path.join(d, "clusters.tsv")
        import csv as _csv

        with open(cp, "w", newline="") as fh:
            w = _csv.writer(fh, delimiter="\t")
            extra = bool(inp.get("cluster_extra_cols"))
            w.writerow(["mutation_id", "sample_id", "cluster_id"] + (["cellular_prevalence", "chrom"] if extra else []))
            for row in inp["cluster_rows"]:
                w.writerow([row["mutation_id"], row["sample_id"], row["cluster_id"]] + ([0.5, "chr1"] if extra else []))
    return p, cp


def gen_options(r, boundary=True):
    o = dict(
        proposal=r.choice(["bootstrap", "semi-adapted", "fully-adapted"]),
        num_particles=r.choice([1, 2, 3, 5, 20] if boundary else [2, 3, 5]),
        resample_threshold=r.choice([0.0, 0.5, 0.5, 1.0, round(r.random(), 3)]),
        outlier_prob=r.choice([0.0, 0.0, 0.0001, 0.01, 0.5, 0.99, 1.0] if boundary else [0.0, 0.0, 0.01, 0.3]),
        subtree_update_prob=r.choice([0.0, 0.0, 0.3, 1.0]),
        thin=r.choice([1, 1, 2, 7]),
        burnin=r.choice([1, 2, 5]),
        num_iters=r.choice([1, 2, 10, 30] if boundary else [3, 6, 12]),
        concentration_update=r.random() < 0.5,
        concentration_value=r.choice([0.01, 1.0, 1.0, 50.0]),
        density=r.choice(["beta-binomial", "binomial"]),
        grid_size=r.choice([11, 11, 21, 101] if boundary else [11, 21]),
        num_chains=r.choice([1, 1, 2, 3]),
        seed=r.randrange(1 << 31),
        precision=r.choice([400.0, 50.0]),
        print_freq=1000000,
        num_samples_data_point=r.choice([1, 1, 0, 2]),
        num_samples_prune_regraph=r.choice([1, 1, 0, 2]),
    )
    return o


def gen_clock(r, opts, finite=None):
    """(max_time, deltas).  The scheduler decides at which iteration --max-time expires."""
    finite = (r.random() < 0.4) if finite is None else finite
    if not finite:
        return float("inf"), [r.choice([0.0, 0.001, 1.0])]
    total = opts["burnin"] + opts["num_iters"]
    expire_at = r.randint(0, total)  # iteration (burn-in included) during which the limit is crossed
    kind = r.choice(["jump", "steady", "stall", "back", "frozen", "zero_limit"])
    if kind == "frozen":
        # the clock never advances and the limit is 0 seconds (the CLI accepts --max-time 0)
        return 0.0, [0.0]
    if kind == "zero_limit":
        return 0.0, [r.choice([0.0, 0.25, 1.0])]
    deltas = []
    for it in range(total + 2):
        between = r.choice([0.0, 0.5, 3.0])  # time passing outside the timed section (not counted by Timer)
        if kind == "steady":
            inside = 1.0
        elif kind == "stall":
            inside = 0.0 if it != expire_at else 1000.0
        elif kind == "back":
            inside = r.choice([1.0, -0.5, 2.0])
        else:
            inside = 0.01 if it != expire_at else 500.0
        deltas += [inside, between]
    if kind == "steady":
        max_time = float(max(1, expire_at))
    elif kind == "back":
        max_time = float(r.randint(1, max(1, total)))
    else:
        max_time = 100.0
    return max_time, deltas


# ------------------------------------------------------------------------------------------------ one simulated run
class PatchSet(object):
    def __init__(self):
        self.saved = []

    _ABSENT = object()

    def set(self, obj, name, val):
        self.saved.append((obj, name, obj.__dict__.get(name, self._ABSENT) if hasattr(obj, "__dict__") else getattr(obj, name)))
        setattr(obj, name, val)

    def undo(self):
        for obj, name, val in reversed(self.saved):
            if val is self._ABSENT:
                try:
                    delattr(obj, name)
                except AttributeError:
                    pass
            else:
                setattr(obj, name, val)
        self.saved = []


def innermost_phyclone_frame(e):
    where = ""
    frames = traceback.extract_tb(e.__traceback__)
    for fr in frames:
        if "/phyclone/" in fr.filename:
            where = "%s:%s" % (fr.filename.split("phyclone/")[-1], fr.name)
    injected = isinstance(e, (WorkerFailure, MemoryError)) or (isinstance(e, OSError) and getattr(e, "errno", None) in (errno.ENOSPC, errno.EIO)) or type(e).__name__ == "BrokenProcessPool"
    if frames and not injected and os.path.join("sim", "") in frames[-1].filename and "/phyclone/" not in frames[-1].filename:
        # the exception was raised by harness code (a wrapper that no longer fits the code under test): never a verdict
        from sim import runner

        raise runner.HarnessError("harness wrapper failed at %s:%d: %s: %s" % (frames[-1].filename, frames[-1].lineno, type(e).__name__, e))
    return where


def run_pipeline(spec):
    """spec: inputs, options, max_time, deltas, schedule, write_fault, via_cli, hist (what to record).
    Returns a history dict.  Never raises for exceptions of the code under test (they are recorded)."""
    import phyclone.process_trace.process_trace as ppt
    import phyclone.run as prun
    from phyclone.mcmc.concentration import GammaPriorConcentrationSampler
    from phyclone.utils import Timer

    opts = dict(spec["options"])
    hist = {"spec": spec, "exception": None, "conc_calls": [], "appended": [], "iter_calls": {"burnin": 0, "main": 0}, "stats": {},
            "results": None, "image": None, "post_burnin": []}
    d = tempfile.mkdtemp(prefix="vsim_")
    fs = SimFS()
    fs.write_fault = spec.get("write_fault")
    clock_holder = {}
    P = PatchSet()
    phase = {"name": None, "chain": None}
    try:
        in_file, cluster_file = write_inputs(d, spec["inputs"])
        out_file = os.path.join(d, "trace.pkl.gz")
        ex = SimExecutor(spec.get("schedule") or {}, hist["stats"], hist)

        def make_timer():
            c = SimClock(spec.get("deltas") or [0.0])
            hist.setdefault("_clocks", []).append(c)
            return Timer(func=c)

        if spec.get("ambient"):
            # everything else a process can read from its surroundings: wall clocks outside the Timer seam, working directory,
            # environment.  The perturbed executions get other values than the canonical one.
            import time as _time

            amb = spec["ambient"]
            wall = SimClock([amb.get("step", 0.001)])
            wall.T = float(amb.get("offset", 0.0))
            for nm in ("time", "monotonic", "perf_counter", "process_time"):
                P.set(_time, nm, wall)
            for nm in ("time_ns", "monotonic_ns", "perf_counter_ns"):
                P.set(_time, nm, lambda wall=wall: int(wall() * 1e9))
            if amb.get("cwd"):
                sub = os.path.join(d, "cwd_%s" % amb["cwd"])
                os.makedirs(sub, exist_ok=True)
                hist["_old_cwd"] = os.getcwd()
                os.chdir(sub)
            for k_, v_ in (amb.get("env") or {}).items():
                hist.setdefault("_old_env", {})[k_] = os.environ.get(k_)
                os.environ[k_] = v_
        if spec.get("draw_budget"):
            import numpy as _np

            from sim.rng import SimGenerator

            budget = int(spec["draw_budget"])

            def seeded(seed):
                # the same stream as np.random.default_rng(seed), plus a cap on draws that turns a hang into a recorded failure
                return SimGenerator(mode="record", bitgen=_np.random.PCG64(seed), max_draws=budget)

            P.set(prun, "instantiate_and_seed_RNG", seeded)
        if spec.get("cores"):
            # the number of available cores is an input of the schedule too: whatever the code asks the OS, it sees `cores`
            import multiprocessing as _mp

            ncore = int(spec["cores"])
            if hasattr(os, "sched_getaffinity"):
                P.set(os, "sched_getaffinity", lambda pid=0: set(range(ncore)))
            P.set(os, "cpu_count", lambda: ncore)
            P.set(_mp, "cpu_count", lambda: ncore)
            hist["stats"]["cores_simulated"] = 1
        P.set(prun, "Timer", make_timer)
        P.set(prun, "ProcessPoolExecutor", ex)
        P.set(prun, "as_completed", ex.as_completed)
        P.set(prun, "get_context", lambda kind: ("sim-context", kind))
        fs.manage(out_file)
        fs.install(P, ppt)

        orig_burn, orig_main, orig_clear = prun._run_burnin, prun._run_main_sampler, prun.clear_proposal_dist_caches
        orig_append, orig_upd = prun.append_to_trace, prun.update_concentration_value
        orig_sample = GammaPriorConcentrationSampler.sample

        def w_burn(*a, **k):
            phase["name"] = "burnin"
            try:
                t = orig_burn(*a, **k)
            finally:
                phase["name"] = None
            chain = a[9] if len(a) > 9 else k.get("chain_num")
            try:
                hist["post_burnin"].append((chain, models.canon(bridge.to_forest(t))))
            except Exception:
                hist["post_burnin"].append((chain, None))
            return t

        def w_main(*a, **k):
            phase["name"] = "main"
            phase["chain"] = a[13] if len(a) > 13 else k.get("chain_num")
            hist.setdefault("main_iters_by_chain", {})[phase["chain"]] = 0
            try:
                return orig_main(*a, **k)
            finally:
                phase["name"] = None

        def w_clear():
            if phase["name"]:
                hist["iter_calls"][phase["name"]] += 1
                if phase["name"] == "main":
                    hist["main_iters_by_chain"][phase["chain"]] += 1
            return orig_clear()

        def w_append(i, timer, trace, tree, *a, **k):
            bad = monitors.wellformed(tree)
            hist["appended"].append({"iter": i, "wellformed": bad[:1], "n_data": len(tree.data)})
            return orig_append(i, timer, trace, tree, *a, **k)

        conc_ctx = {}

        def w_sample(self, old_value, num_clusters, num_data_points, *a, **k):
            new = orig_sample(self, old_value, num_clusters, num_data_points, *a, **k)
            conc_ctx["args"] = (float(old_value), int(num_clusters), int(num_data_points), float(new), float(self.a), float(self.b))
            return new

        def w_upd(conc_sampler, tree, tree_dist, *a, **k):
            f = bridge.to_forest(tree)
            K = len(f.own)
            n = sum(len(o) for o in f.own)
            before = float(tree_dist.prior.alpha)
            conc_ctx.pop("args", None)
            orig_upd(conc_sampler, tree, tree_dist, *a, **k)
            rec = {"K": K, "n": n, "before": before, "after": float(tree_dist.prior.alpha), "log_alpha": float(tree_dist.prior.log_alpha),
                   "args": conc_ctx.get("args")}
            hist["conc_calls"].append(rec)

        orig_writer = prun.create_main_run_output

        def w_writer(cluster_file_, out_file_, results_):
            # what the run hands to the trace writer, whatever the file format is
            try:
                hist["results_handed_to_writer"] = pickle.loads(pickle.dumps(results_, protocol=pickle.HIGHEST_PROTOCOL))
            except Exception as e:
                hist["results_error"] = repr(e)
            return orig_writer(cluster_file_, out_file_, results_)

        P.set(prun, "create_main_run_output", w_writer)
        P.set(prun, "_run_burnin", w_burn)
        P.set(prun, "_run_main_sampler", w_main)
        P.set(prun, "clear_proposal_dist_caches", w_clear)
        P.set(prun, "append_to_trace", w_append)
        P.set(prun, "update_concentration_value", w_upd)
        P.set(GammaPriorConcentrationSampler, "sample", w_sample)

        kwargs = dict(in_file=in_file, out_file=out_file, cluster_file=cluster_file, max_time=spec.get("max_time", float("inf")))
        kwargs.update(opts)
        out = io.StringIO()
        try:
            with contextlib.redirect_stdout(out):
                if spec.get("via_cli"):
                    import phyclone.cli as pcli

                    args = ["-i", in_file, "-o", out_file]
                    if cluster_file:
                        args += ["-c", cluster_file]
                    flag = {"burnin": "--burnin", "num_iters": "--num-iters", "thin": "--thin", "num_chains": "--num-chains",
                            "density": "--density", "outlier_prob": "--outlier-prob", "proposal": "--proposal",
                            "concentration_value": "--concentration-value", "grid_size": "--grid-size", "num_particles": "--num-particles",
                            "num_samples_data_point": "--num-samples-data-point", "num_samples_prune_regraph": "--num-samples-prune-regraph",
                            "subtree_update_prob": "--subtree-update-prob", "precision": "--precision", "print_freq": "--print-freq",
                            "resample_threshold": "--resample-threshold", "seed": "--seed"}
                    for k, v in opts.items():
                        if k == "concentration_update":
                            args.append("--concentration-update" if v else "--no-concentration-update")
                        else:
                            args += [flag[k], str(v)]
                    if math.isfinite(kwargs["max_time"]):
                        args += ["--max-time", str(kwargs["max_time"])]
                    pcli.run.main(args, standalone_mode=False)
                else:
                    prun.run(**kwargs)
        except ProcessKilled as e:
            hist["exception"] = {"type": "ProcessKilled", "where": "", "msg": str(e)}
        except _HarnessError:
            raise  # a failure of the simulator itself is never a verdict about the run
        except ChainError as e:
            hist["exception"] = {"type": e.type_name, "where": e.where, "msg": e.msg}
        except Exception as e:
            hist["exception"] = {"type": type(e).__name__, "where": innermost_phyclone_frame(e), "msg": str(e)[:300]}
        hist["image"] = fs.images.get(out_file)
        if hist["image"] is None and os.path.exists(out_file):
            # the writer bypassed both seams and wrote to the real disk: no write fault could be injected, the bytes are still the trace
            with open(out_file, "rb") as fh:
                hist["image"] = fh.read()
            hist["stats"]["writer_bypassed_simulated_disk"] = 1
        hist["fs_fired"] = dict(fs.fired)
        hist["out_file"] = out_file
        cstats = [(c.reads, c.T) for c in hist.pop("_clocks", [])] + list(hist.pop("_clock_stats", []))
        hist["clock_reads"] = sorted(rd for rd, _ in cstats)
        hist["sim_time"] = float(sum(max(0.0, t_) for _, t_ in cstats))
        if hist["image"] is not None and hist["exception"] is None:
            hist["results"] = hist.get("results_handed_to_writer")
            if hist["results"] is not None and cluster_file and all("clusters" not in v for v in hist["results"].values()):
                # the shipped writer adds the cluster table to every chain before dumping; mirror it for the trace model
                try:
                    import pandas as pd

                    cl = pd.read_csv(cluster_file, sep="\t")[["mutation_id", "cluster_id"]].drop_duplicates()
                    for v in hist["results"].values():
                        v["clusters"] = cl
                except Exception as e:
                    hist["results_error"] = repr(e)
    finally:
        P.undo()
        if hist.get("_old_cwd"):
            os.chdir(hist.pop("_old_cwd"))
        for k_, v_ in (hist.pop("_old_env", None) or {}).items():
            if v_ is None:
                os.environ.pop(k_, None)
            else:
                os.environ[k_] = v_
        shutil.rmtree(d, ignore_errors=True)
    return hist


# ------------------------------------------------------------------------------------------------ summaries on an image
def run_summaries(image, what, scratch=None):
    """Run one summary command on a trace image.  what: ('map', map_type) | ('consensus', weight_type, threshold) |
    ('topology', top_trees or None, with_archive).  Returns dict(ok, exception, outputs...)."""
    import phyclone.process_trace.process_trace as ppt

    d = tempfile.mkdtemp(prefix="vsum_")
    P = PatchSet()
    out = {"ok": False, "exception": None}
    try:
        trace_path = os.path.join(d, "TRACE.pkl.gz")
        with open(trace_path, "wb") as fh:  # readers see a real file holding exactly the image (possibly a truncated one)
            fh.write(image)
        table = os.path.join(d, "TABLE.tsv")
        tree = os.path.join(d, "TREE.nwk")
        try:
            with contextlib.redirect_stdout(io.StringIO()):
                if what[0] == "cli":
                    # through the click commands, as a user runs them (exceptions propagate with standalone_mode=False)
                    import phyclone.cli as pcli

                    if what[1] == "map":
                        pcli.map.main(["-i", trace_path, "-o", table, "-t", tree, "--map-type", what[2]], standalone_mode=False)
                    elif what[1] == "consensus":
                        pcli.consensus.main(["-i", trace_path, "-o", table, "-t", tree, "-w", what[2], "--consensus-threshold", str(what[3])], standalone_mode=False)
                    else:
                        pcli.topology_report.main(["-i", trace_path, "-o", table, "-t", os.path.join(d, "ARCH.tar.gz")], standalone_mode=False)
                elif what[0] == "map":
                    ppt.write_map_results(trace_path, table, tree, map_type=what[1])
                elif what[0] == "consensus":
                    ppt.write_consensus_results(trace_path, table, tree, consensus_threshold=what[2], weight_type=what[1])
                else:
                    arch = os.path.join(d, "ARCH.tar.gz") if what[2] else None
                    top = what[1] if what[1] is not None else float("inf")
                    ppt.write_topology_report(trace_path, table, topologies_archive=arch, top_trees=top)
            out["ok"] = True
        except Exception as e:
            out["exception"] = {"type": type(e).__name__, "where": innermost_phyclone_frame(e), "msg": str(e)[:300]}
        if os.path.exists(table):
            out["table"] = open(table).read()
        if os.path.exists(tree):
            out["newick"] = open(tree).read()
        arch = os.path.join(d, "ARCH.tar.gz")
        if os.path.exists(arch):
            members = {}
            try:
                with tarfile.open(arch, "r:gz") as tf:
                    for m in tf.getmembers():
                        members[m.name] = tf.extractfile(m).read().decode()
                out["archive"] = members
            except Exception as e:
                out["archive_error"] = repr(e)
    finally:
        P.undo()
        shutil.rmtree(d, ignore_errors=True)
    return out


def load_results(image):
    """Decode a trace image into {chain: result} without the repository's readers: every gzip member / pickle record
    in the stream is read and merged (the shipped format is one member holding one record)."""
    data = real_gzip.decompress(image)
    bio = io.BytesIO(data)
    out = None
    while bio.tell() < len(data):
        rec = pickle.load(bio)
        if out is None:
            out = rec
        elif isinstance(out, dict) and isinstance(rec, dict):
            out.update(rec)
    return out


def warm_up():
    """Compile load_data's numba kernels and touch every summary once, in the parent, before workers fork."""
    bridge.warm_up()
    r = random.Random(12345)
    inp = gen_inputs(r, n_mut=2, n_samples=1, clustered=False)
    for dens in ("binomial", "beta-binomial"):
        o = gen_options(r, boundary=False)
        o.update(density=dens, num_iters=1, burnin=1, num_chains=1, grid_size=11, outlier_prob=0.0)
        h = run_pipeline(dict(inputs=inp, options=o, max_time=float("inf"), deltas=[0.0]))
    if h["image"] is not None:
        run_summaries(h["image"], ("map", "joint-likelihood"))
        run_summaries(h["image"], ("consensus", "counts", 0.5))
        run_summaries(h["image"], ("topology", None, True))


def spec_from_seed(seed, boundary=True, chains=None, finite_clock=None, clustered=None, n_mut=None, n_samples=None, exotic=False, sample_scheme=None):
    r = random.Random(seed)
    inp = gen_inputs(r, clustered=clustered, n_mut=n_mut, n_samples=n_samples, exotic=exotic, sample_scheme=sample_scheme)
    opts = gen_options(r, boundary=boundary)
    if chains is not None:
        opts["num_chains"] = chains
    max_time, deltas = gen_clock(r, opts, finite=finite_clock)
    k = opts["num_chains"]
    order = list(range(k))
    r.shuffle(order)
    fin = list(range(k))
    r.shuffle(fin)
    workers = [r.randrange(k) for _ in range(k)]
    sched = {"start_order": order, "finish_order": fin, "worker_of": workers}
    return dict(inputs=inp, options=opts, max_time=max_time, deltas=deltas, schedule=sched, via_cli=r.random() < 0.25, seed=seed)



def jsonable_spec(spec):
    s = {k: v for k, v in spec.items() if k != "draw_budget"}
    if isinstance(s.get("max_time"), float) and math.isinf(s["max_time"]):
        s["max_time"] = "inf"
    return s


def unjson_spec(spec):
    s = dict(spec)
    if s.get("max_time") == "inf":
        s["max_time"] = float("inf")
    return s


def minimise_spec(spec, fails, budget_s=60, keep_chains=False):
    """Greedy descent on the whole run description while the same violation class persists: fewer chains, iterations,
    particles, mutations, samples; features switched off; the clock script and schedule simplified."""
    import copy
    import time

    t0 = time.time()
    cur = copy.deepcopy(spec)

    def variants(sp):
        o = sp["options"]
        for name, vals in ((("num_chains", [1]) if not keep_chains else ("num_chains", [2])), ("num_iters", [1, 2]), ("burnin", [1]), ("num_particles", [1, 2]), ("thin", [1]),
                           ("subtree_update_prob", [0.0]), ("concentration_update", [False]), ("outlier_prob", [0.0]), ("grid_size", [11]),
                           ("num_samples_data_point", [1, 0]), ("num_samples_prune_regraph", [1, 0]), ("resample_threshold", [0.5]),
                           ("concentration_value", [1.0]), ("density", ["binomial"])):
            for v in vals:
                if o.get(name) != v:
                    t = copy.deepcopy(sp)
                    t["options"][name] = v
                    if name == "num_chains":
                        t["schedule"] = {}
                    yield t
        if sp.get("max_time") not in ("inf", float("inf")):
            t = copy.deepcopy(sp)
            t["max_time"] = "inf"
            t["deltas"] = [0.0]
            yield t
        if sp.get("via_cli"):
            t = copy.deepcopy(sp)
            t["via_cli"] = False
            yield t
        inp = sp["inputs"]
        muts = sorted(set(r_["mutation_id"] for r_ in inp["rows"]))
        if len(muts) > 1:
            for m in muts:
                t = copy.deepcopy(sp)
                t["inputs"]["rows"] = [r_ for r_ in inp["rows"] if r_["mutation_id"] != m]
                if inp.get("expect_names") is not None:
                    t["inputs"]["expect_names"] = [x for x in inp["expect_names"] if x != m]
                    if not t["inputs"]["expect_names"]:
                        continue
                if inp.get("cluster_rows"):
                    t["inputs"]["cluster_rows"] = [r_ for r_ in inp["cluster_rows"] if r_["mutation_id"] != m]
                yield t
        if len(inp["samples"]) > 1 and inp.get("expect_names") is None:
            keep = inp["samples"][0]
            t = copy.deepcopy(sp)
            t["inputs"]["samples"] = [keep]
            t["inputs"]["rows"] = [r_ for r_ in inp["rows"] if r_["sample_id"] == keep]
            if inp.get("cluster_rows"):
                t["inputs"]["cluster_rows"] = [r_ for r_ in inp["cluster_rows"] if r_["sample_id"] == keep]
            yield t
        if inp.get("cluster_rows"):
            t = copy.deepcopy(sp)
            t["inputs"]["cluster_rows"] = None
            yield t

    changed = True
    while changed and time.time() - t0 < budget_s:
        changed = False
        for t in variants(cur):
            if time.time() - t0 > budget_s:
                break
            if fails(t):
                cur = t
                changed = True
                break
    return cur



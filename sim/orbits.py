"""Exact kernels on closed classes of larger trees, lumped by symmetry.

With exchangeable data (every data point carries the same likelihood rows and outlier prior) both the posterior and every
sampler's kernel commute with relabelling the data points.  Then pi K = pi on a class C that the move cannot leave holds iff
the LUMPED chain on the orbits (unlabelled shapes with clone sizes and outlier count) leaves pi~(O) = |O| pi(T_O) invariant,
where K~(O, O') = sum over T' in O' of K(T_O, T') for one representative T_O.  So only one start tree per orbit has to be
traversed and no labelled state space has to be enumerated: prune-regraft over all forests of 7 singleton clones is 115
orbits instead of 262 144 trees; the data-point move on 6-7 data points over a fixed clone structure is a handful.
(A move that maps the class outside itself, or is not symmetric, shows up as leaked mass / a failed symmetry spot check.)"""
import itertools
import math
import random

import numpy as np

from sim import bridge, kernelmat, models, runner
from sim.models import Forest
from sim.rng import ExploreBudget, HarnessUnsupported, explore
from sim.statinv import tree_class


# ------------------------------------------------------------------ shapes
def tree_shapes(m, cache={}):
    """All unlabelled rooted trees with m nodes, as nested sorted tuples."""
    if m in cache:
        return cache[m]
    res = set()
    if m == 1:
        res.add(())
    else:
        for f in forest_shapes(m - 1):
            res.add(f)
    cache[m] = sorted(res)
    return cache[m]


def forest_shapes(m, cache={}):
    """All unlabelled forests with m nodes: sorted tuples of tree shapes (a tree shape is the tuple of its children)."""
    if m in cache:
        return cache[m]
    res = set()
    if m == 0:
        res.add(())
    else:
        # partitions of m into tree sizes, non-increasing, then multisets of trees of those sizes
        def rec(remaining, max_size, acc):
            if remaining == 0:
                res.add(tuple(sorted(acc)))
                return
            for s in range(min(remaining, max_size), 0, -1):
                for t in tree_shapes(s):
                    rec(remaining - s, s, acc + [t])
        rec(m, m, [])
    cache[m] = sorted(res)
    return cache[m]


def forest_from_structure(structure, sizes, n_out):
    """structure: forest shape (nested tuples); sizes: list of clone sizes in DFS pre-order; returns a labelled Forest."""
    own, parent = [], []
    nxt = [0]
    k = [0]

    def rec(t, par):
        i = len(own)
        s = sizes[k[0]]
        k[0] += 1
        own.append(frozenset(range(nxt[0], nxt[0] + s)))
        nxt[0] += s
        parent.append(par)
        for c in t:
            rec(c, i)

    for t in structure:
        rec(t, -1)
    outl = frozenset(range(nxt[0], nxt[0] + n_out))
    return Forest(tuple(own), tuple(parent), outl)


def count_nodes(structure):
    return sum(1 + count_nodes(t) for t in structure)


def aut_order(shape):
    """Order of the automorphism group of a shape ((size, children shapes) nested, as statinv.tree_class gives) acting on
    labelled data points: permutations inside each clone, times permutations of identical sibling subtrees."""
    tops, n_out = shape

    def rec(nodes):
        a = 1
        counts = {}
        for nd in nodes:
            counts[nd] = counts.get(nd, 0) + 1
        for nd, c in counts.items():
            a *= math.factorial(c)
        for size, kids in nodes:
            a *= math.factorial(size) * rec(kids)
        return a

    return rec(tops) * math.factorial(n_out)


def orbit_size(shape, n):
    return math.factorial(n) // aut_order(shape)


# ------------------------------------------------------------------ classes
def class_all_forests_of_singletons(n, n_out=0):
    """Every forest over n - n_out singleton clones (+ n_out outliers): closed under prune-regraft."""
    k = n - n_out
    return [forest_from_structure(st, [1] * k, n_out) for st in forest_shapes(k)]


def class_fixed_structure(structure, n, outliers):
    """Every assignment of n data points to the clones of a fixed structure (no clone empty; with `outliers`, any number of
    the rest in the outlier set): closed under the data-point move."""
    k = count_nodes(structure)
    res = {}
    for n_out in range(0, (n - k) + 1 if outliers else 1):
        m = n - n_out
        for cuts in itertools.combinations(range(1, m), k - 1):
            sizes = [b - a for a, b in zip((0,) + cuts, cuts + (m,))]
            f = forest_from_structure(structure, sizes, n_out)
            res.setdefault(tree_class(models.canon(f)), f)
    return list(res.values())


# ------------------------------------------------------------------ lumped kernel
def _row(item):
    c, fj, max_leaves = item
    from phyclone.tree import FSCRPDistribution, TreeJointDistribution

    f = Forest(tuple(frozenset(o) for o in fj["own"]), tuple(fj["parent"]), frozenset(fj["outliers"]))
    data = _data(c)
    start = bridge.build_tree(f, data)
    out, excs = {}, {}
    leaves = 0

    def leaf(g):
        bridge.clear_caches()
        td = TreeJointDistribution(FSCRPDistribution(c["alpha"]))
        try:
            op = kernelmat.make_operation(c, g, td, data)
            return ("ok", tree_class(bridge.canon_tree(op(start.copy()))))
        except (HarnessUnsupported, ExploreBudget):
            raise
        except Exception as e:
            return ("exc", type(e).__name__ + ": " + str(e)[:120])

    try:
        for res, p, script in explore(leaf, max_leaves=max_leaves):
            leaves += 1
            if res[0] == "ok":
                out[res[1]] = out.get(res[1], 0.0) + p
            else:
                excs[res[1]] = excs.get(res[1], 0.0) + p
    except ExploreBudget:
        return {"budget": True}
    td = TreeJointDistribution(FSCRPDistribution(c["alpha"]))
    return {"row": out, "exc": excs, "leaves": leaves, "logpi": float(td.log_p_one(start)), "shape": tree_class(models.canon(f))}


_DATA = {}


def _data(c):
    key = (c["n"], c["samples"], c["grid"], c["data_seed"], c["outlier_prob"])
    if key not in _DATA:
        _DATA.clear()
        _DATA[key] = bridge.make_data(random.Random(c["data_seed"]), c["n"], samples=c["samples"], grid=c["grid"], style="flat",
                                      outlier_prob=c["outlier_prob"])
    return _DATA[key]


def run_class(c, forests, max_leaves=400000):
    """c: kernel configuration (style is forced to 'flat'); forests: one labelled representative per orbit of a closed class.
    Returns (stats, problems) like kernelmat.run_config."""
    c = dict(c, style="flat")
    n = c["n"]
    items = [(c, {"own": [sorted(o) for o in f.own], "parent": list(f.parent), "outliers": sorted(f.outliers)}, max_leaves) for f in forests]
    rows = runner.pmap(_row, items, timeout=3000)
    if any(r.get("budget") for r in rows):
        return None, []
    shapes = [r["shape"] for r in rows]
    if len(set(shapes)) != len(shapes):
        raise runner.HarnessError("two representatives of the same orbit")
    idx = {s: i for i, s in enumerate(shapes)}
    m = len(rows)
    K = np.zeros((m, m))
    problems = []
    base = dict(kernelmat.config_key(c), world="orbit_lumped", n=n)
    for i, r in enumerate(rows):
        for s, p in r["row"].items():
            if s not in idx:
                problems.append((dict(base, sub="leaves_closed_class"), "from shape %r the move reaches shape %r (probability %.3g) outside the class" % (shapes[i], s, p), {}))
            else:
                K[i, idx[s]] += p
        for e, p in r["exc"].items():
            problems.append((dict(base, sub="exception", exc=e.split(":")[0]), "from shape %r: %s (probability %.3g)" % (shapes[i], e, p), {}))
    lw = np.array([r["logpi"] + math.log(orbit_size(s, n)) for r, s in zip(rows, shapes)])
    pt = np.exp(lw - lw.max())
    pt /= pt.sum()
    complete = all(abs(K[i].sum() - 1.0) < 1e-9 for i in range(m))
    resid = float(np.max(np.abs(pt @ K - pt)))
    if complete and resid > kernelmat.TOL:
        j = int(np.argmax(np.abs(pt @ K - pt)))
        problems.append((dict(base, sub="invariance"), "lumped chain on %d orbits (%d data points): max|pi K - pi| = %.3e at shape %r" % (m, n, resid, shapes[j]), {}))
    return {"orbits": m, "leaves": sum(r["leaves"] for r in rows), "resid": resid, "complete": complete,
            "labelled_states_represented": int(sum(orbit_size(s, n) for s in shapes))}, problems

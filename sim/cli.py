import argparse
import contextlib
import importlib
import io
import json
import os
import sys
import traceback

from sim import runner


def main(argv):
    ap = argparse.ArgumentParser(prog="check")
    ap.add_argument("prop")
    ap.add_argument("--tier", default=os.environ.get("VERIF_TIER", "quick"), choices=["quick", "thorough"])
    ap.add_argument("--replay", default=None)
    ap.add_argument("--seed", default=os.environ.get("VERIF_SEED", "0"))
    a = ap.parse_args(argv)
    try:
        seed = int(a.seed)
    except ValueError:
        seed = runner.hash64(a.seed) % (2 ** 31)
    prop = a.prop
    try:
        import phyclone  # noqa: F401

        src = os.path.dirname(os.path.dirname(os.path.abspath(phyclone.__file__)))
        if os.path.realpath(src) != os.path.realpath(runner.REPO):
            print("HARNESS-ERROR: phyclone imported from %s, expected %s" % (src, runner.REPO))
            return 2
        mod = importlib.import_module("checks.%s" % prop.lower())
        print("check %s tier=%s VERIF_SEED=%d repo=%s workers=%d hashseed=%s" % (
            prop, a.tier, seed, runner.REPO, runner.n_workers(), os.environ.get("PYTHONHASHSEED")))
        sys.stdout.flush()
        ctx = runner.Ctx(prop, a.tier, seed, level=getattr(mod, "LEVEL", "exploration"))
        if a.replay:
            ctx.replaying = True
            with open(a.replay) as fh:
                obj = json.load(fh)
            mod.replay(ctx, obj["replay"])
        else:
            mod.run(ctx)
        st = ctx.finish()
        print("check %s done: status=%d evaluations=%s wall=%.1fs" % (prop, st, ctx.cov.get("evaluations"), ctx.elapsed()))
        return st
    except runner.HarnessError as e:
        print("HARNESS-ERROR: %s" % e)
        return 2
    except Exception:
        print("HARNESS-ERROR: unexpected exception in the check driver")
        traceback.print_exc()
        return 2
    finally:
        runner.shutdown_pool()


@contextlib.contextmanager
def quiet():
    """Silence the code under test's prints (never used around harness output)."""
    buf = io.StringIO()
    with contextlib.redirect_stdout(buf):
        yield buf

"""Check driver: seeds, fork pool, violations / known findings, replay files, evidence."""
import concurrent.futures as cf
import faulthandler
import hashlib
import json
import multiprocessing as mp
import os
import subprocess
import sys
import time
import traceback

VERIF = os.path.dirname(os.path.dirname(os.path.abspath(__file__)))
REPO = os.environ.get("VERIF_REPO", "/repo")


class HarnessError(Exception):
    pass


def hash64(*parts):
    h = hashlib.blake2b(repr(parts).encode(), digest_size=8).digest()
    return int.from_bytes(h, "big")


def subseed(seed, check_id, r):
    return hash64("verif", int(seed), str(check_id), r)


def n_workers():
    w = os.environ.get("VERIF_WORKERS")
    if w:
        return max(1, int(w))
    return max(1, min(16, os.cpu_count() or 1))


def _jsonable(o):
    import numpy as np

    if isinstance(o, dict):
        return {str(k): _jsonable(v) for k, v in o.items()}
    if isinstance(o, (list, tuple)):
        return [_jsonable(v) for v in o]
    if isinstance(o, (set, frozenset)):
        try:
            return sorted(_jsonable(v) for v in o)
        except TypeError:
            return sorted((_jsonable(v) for v in o), key=repr)
    if isinstance(o, np.ndarray):
        return _jsonable(o.tolist())
    if isinstance(o, np.generic):
        return _jsonable(o.item())
    if isinstance(o, float):
        if o != o:
            return "nan"
        if o in (float("inf"), float("-inf")):
            return "inf" if o > 0 else "-inf"
        return o
    if isinstance(o, (int, str, bool)) or o is None:
        return o
    return repr(o)


def _task_wrapper(args):
    fn, item, timeout = args
    if timeout:
        faulthandler.dump_traceback_later(timeout, exit=True)
    try:
        return ("ok", fn(item))
    except BaseException as e:  # harness-level failure inside a worker
        return ("err", "%s: %s\n%s" % (type(e).__name__, e, traceback.format_exc()))
    finally:
        if timeout:
            faulthandler.cancel_dump_traceback_later()


_POOL = None


def _worker_init():
    """Workers must not outlive the check: ask the kernel to kill them when the parent dies."""
    try:
        import ctypes
        import signal

        ctypes.CDLL("libc.so.6", use_errno=True).prctl(1, signal.SIGKILL)  # PR_SET_PDEATHSIG
    except Exception:
        pass


def pool():
    global _POOL
    if _POOL is None:
        _POOL = cf.ProcessPoolExecutor(max_workers=n_workers(), mp_context=mp.get_context("fork"), initializer=_worker_init)
    return _POOL


def shutdown_pool(kill=False):
    global _POOL
    if _POOL is not None:
        procs = list(getattr(_POOL, "_processes", {}).values())
        _POOL.shutdown(wait=False, cancel_futures=True)
        if kill:
            for p in procs:
                try:
                    p.kill()
                except Exception:
                    pass
        _POOL = None


def pmap(fn, items, timeout=900, chunksize=1, deadline=None):
    """Ordered parallel map in forked workers.  A worker exception or death is a harness error.
    With `deadline` (time.time() value) items not started by then are skipped (returned as None)."""
    items = list(items)
    if n_workers() == 1 or len(items) <= 1:
        out = []
        for it in items:
            if deadline is not None and time.time() > deadline:
                out.append(None)
                continue
            st, r = _task_wrapper((fn, it, 0))
            if st != "ok":
                raise HarnessError("worker failed: " + r)
            out.append(r)
        return out
    p = pool()
    futs = []
    for it in items:
        futs.append(p.submit(_guarded, fn, it, timeout, deadline))
    out = []
    try:
        for f in futs:
            try:
                st, r = f.result(timeout=(timeout or 3000) + 120)
            except cf.TimeoutError:
                shutdown_pool(kill=True)
                raise HarnessError("a worker did not answer within %d s (stuck or dead worker); nothing is concluded" % ((timeout or 3000) + 120))
            if st == "skip":
                out.append(None)
            elif st != "ok":
                raise HarnessError("worker failed: " + r)
            else:
                out.append(r)
    except cf.process.BrokenProcessPool as e:
        raise HarnessError("a worker process died (wall-clock backstop or crash): %s" % e)
    return out


def _guarded(fn, it, timeout, deadline):
    if deadline is not None and time.time() > deadline:
        return ("skip", None)
    return _task_wrapper((fn, it, timeout))


class Findings(object):
    def __init__(self, path=None):
        self.path = path or os.path.join(VERIF, "known_findings.json")
        try:
            with open(self.path) as fh:
                d = json.load(fh)
        except FileNotFoundError:
            d = {"findings": [], "fixed": []}
        self.findings = d.get("findings", [])

    def match(self, prop, key):
        for f in self.findings:
            if f.get("property") != prop:
                continue
            m = f.get("match", {})
            if all(str(key.get(k)) == str(v) for k, v in m.items()):
                return f
        return None


class Ctx(object):
    """One run of one check."""

    def __init__(self, prop, tier, seed, level="exploration"):
        self.prop = prop
        self.tier = tier
        self.seed = int(seed)
        self.level = level
        self.t0 = time.time()
        self.findings = Findings()
        self.violations = []  # (key, detail, replay_path)
        self.known = {}  # finding id -> count
        self.cov = {
            "evaluations": 0,
            "distinct_nontrivial": 0,
            "rule": "",
            "samples": [],
            "fault_kinds_fired": {},
            "probes": {},
            "components": {},
        }
        self.assumptions = []
        self._vio_keys = set()
        self.max_reports = 8
        self.replaying = False

    # -- time budget
    def elapsed(self):
        return time.time() - self.t0

    def sub(self, r):
        return subseed(self.seed, self.prop, r)

    # -- coverage helpers
    def fault(self, kind, n=1):
        d = self.cov["fault_kinds_fired"]
        d[kind] = d.get(kind, 0) + int(n)

    def probe(self, name, n=1):
        d = self.cov["probes"]
        d[name] = d.get(name, 0) + int(n)

    def sample(self, s, cap=4):
        if len(self.cov["samples"]) < cap:
            self.cov["samples"].append(_jsonable(s))

    def merge_counts(self, field, d):
        tgt = self.cov[field]
        for k, v in d.items():
            tgt[k] = tgt.get(k, 0) + v

    def cannot_judge(self, message):
        """Too many workloads failed before their oracle could run.  Never a pass: exit 2 - unless violations were already
        recorded in this run, which are then reported (exit 1) with the shortfall noted as a probe."""
        if self.violations:
            self.probe("workloads_not_judged: " + message[:120])
            return
        raise HarnessError(message)

    # -- violations
    def violation(self, key, detail, replay):
        """key: dict identifying the violation class; replay: JSON-able object that reproduces it."""
        kjson = json.dumps(_jsonable(key), sort_keys=True)
        f = self.findings.match(self.prop, key)
        if f is not None:
            fid = f.get("id", kjson)
            if fid not in self.known:
                self.known[fid] = [0, f, detail]
            self.known[fid][0] += 1
            return
        if kjson in self._vio_keys:
            for v in self.violations:
                if v["kjson"] == kjson:
                    v["count"] += 1
            return
        self._vio_keys.add(kjson)
        self.violations.append({"kjson": kjson, "key": key, "detail": detail, "replay": replay, "count": 1})

    def finish(self):
        """Write replays + evidence, print verdict lines, return the exit status."""
        wall = time.time() - self.t0
        out_lines = []
        status = 0
        for fid, (cnt, f, detail) in sorted(self.known.items()):
            out_lines.append("KNOWN-FINDING: property=%s %s: %s [seen %d times this run]" % (self.prop, fid, f.get("what", "")[:220], cnt))
        rep_dir = os.environ.get("VERIF_REPLAY_DIR") or os.path.join(VERIF, "replays")
        os.makedirs(rep_dir, exist_ok=True)
        reported = 0
        for v in self.violations:
            if reported >= self.max_reports:
                break
            name = "%s_%s.json" % (self.prop, hashlib.blake2b(v["kjson"].encode(), digest_size=5).hexdigest())
            path = os.path.join(rep_dir, name)
            with open(path, "w") as fh:
                json.dump(_jsonable({"property": self.prop, "key": v["key"], "detail": v["detail"], "seed": self.seed,
                                     "tier": self.tier, "replay": v["replay"]}), fh, indent=1)
            if not self.replaying and os.environ.get("VERIF_NO_CONFIRM") != "1":
                ok = confirm_replay(self.prop, path)
                if not ok:
                    out_lines.append("HARNESS-ERROR: violation %s did not reproduce from its replay file %s" % (v["kjson"], path))
                    status = max(status, 2)
                    continue
            out_lines.append("VIOLATION property=%s replay=%s key=%s detail=%s" % (self.prop, path, v["kjson"], str(v["detail"])[:300]))
            reported += 1
            if status != 2:
                status = 1
        self.write_evidence(wall, len(self.violations))
        for l in out_lines:
            print(l)
        sys.stdout.flush()
        return status

    def write_evidence(self, wall, nviol):
        if self.replaying:
            return
        cov = dict(self.cov)
        cov["evaluations"] = int(cov["evaluations"])
        cov["distinct_nontrivial"] = int(cov["distinct_nontrivial"])
        if wall > 0:
            cov["runs_per_hour"] = round(cov["evaluations"] * 3600.0 / wall, 1)
        cov["known_findings_seen"] = {k: v[0] for k, v in self.known.items()}
        ev = {
            "property_id": self.prop,
            "tier": self.tier,
            "seed": self.seed,
            "level": self.level,
            "coverage": _jsonable(cov),
            "assumptions": self.assumptions,
            "wall_s": round(wall, 2),
            "violations": int(nviol),
        }
        d = os.environ.get("VERIF_EVIDENCE_DIR") or os.path.join(VERIF, "evidence")
        os.makedirs(d, exist_ok=True)
        tmp = os.path.join(d, ".%s.json.tmp" % self.prop)
        with open(tmp, "w") as fh:
            json.dump(ev, fh, indent=1, sort_keys=True)
        os.replace(tmp, os.path.join(d, "%s.json" % self.prop))


def confirm_replay(prop, path):
    """Re-execute a replay file in a fresh interpreter; True iff it reports the violation again."""
    env = dict(os.environ)
    env["VERIF_NO_CONFIRM"] = "1"
    try:
        r = subprocess.run([os.path.join(VERIF, "check"), prop, "--replay", path], env=env, stdout=subprocess.PIPE,
                           stderr=subprocess.STDOUT, timeout=1800)
    except subprocess.TimeoutExpired:
        return False
    return r.returncode == 1 and b"VIOLATION" in r.stdout

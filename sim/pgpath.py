"""Sampling-mode runs of the particle-Gibbs update beyond the traversable sizes, with path-local oracles only
(retained lineage in slot 0 after every resampling and update, swarm size, finite weights, result in support).
These runs can refute, never confirm, invariance; they are reported separately from the exact kernels."""
import math
import random

import numpy as np

from sim import bridge, kernelmat, models, monitors
from sim.rng import SimGenerator


def task(seed):
    from phyclone.smc.samplers import conditional
    from phyclone.tree import FSCRPDistribution, TreeJointDistribution

    r = random.Random(seed)
    n = r.choice([4, 5, 6, 7])
    c = kernelmat.default_config(op=r.choice(["pg", "pg", "subtree"]), n=n, N=r.choice([2, 3, 5, 10]), wiring=r.choice(["run", "lib"]),
                                 proposal=r.choice(["bootstrap", "semi-adapted", "fully-adapted"]), samples=r.choice([1, 2]), grid=r.choice([5, 11]),
                                 style=r.choice(["gauss", "peaked"]), data_seed=r.randrange(1 << 30), alpha=round(math.exp(r.uniform(-2, 2)), 4),
                                 threshold=r.choice([0.0, 0.5, 1.0, round(r.random(), 2)]), outlier_prob=r.choice([0.0, 0.0, 0.05, 0.3]))
    data = bridge.make_data(random.Random(c["data_seed"]), n, samples=c["samples"], grid=c["grid"], style=c["style"], outlier_prob=c["outlier_prob"])
    from checks.c09 import random_forest

    f = random_forest(r, n)
    if c["outlier_prob"] <= 0 and f.outliers:
        f = models.Forest(f.own + tuple(frozenset([d]) for d in sorted(f.outliers)), f.parent + tuple(-1 for _ in f.outliers), frozenset())
    start = bridge.build_tree(f, data)
    tree_dist = TreeJointDistribution(FSCRPDistribution(c["alpha"]))
    problems = []
    stats = {"resamples": 0, "updates": 0, "retained_duplicated": 0}
    C = conditional.ConditionalSMCSampler
    o_res, o_upd, o_init = C._resample_swarm, C._update_swarm, C.__init__
    state = {}

    def w_init(self, current_tree, data_points, kernel, num_particles, resample_threshold=0.5):
        o_init(self, current_tree, data_points, kernel, num_particles, resample_threshold=resample_threshold)
        try:
            if bridge.canon_tree(self.constrained_path[-1].tree) != bridge.canon_tree(current_tree):
                problems.append(({"sub": "retained_path_not_input_tree"}, "the last particle of the retained path is not the input tree"))
        except Exception as e:
            problems.append(({"sub": "retained_path_exception", "exc": type(e).__name__}, repr(e)))

    def common(self, what, gen):
        sw = self.swarm
        if len(sw.particles) != self.num_particles:
            problems.append(({"sub": "swarm_size", "after": what}, "%d particles after %s, sampler configured with %d" % (len(sw.particles), what, self.num_particles)))
        if sw.particles and sw.particles[0] is not None and sw.particles[0] is not self.constrained_path[gen]:
            problems.append(({"sub": "retained_not_in_slot_0", "after": what}, "slot 0 after %s of generation %d does not hold the retained particle" % (what, gen)))
        w = sw.unnormalized_log_weights
        if np.any(np.isnan(w)) or np.any(w == np.inf):
            problems.append(({"sub": "weight_nan_or_inf", "after": what}, "weights %r" % (w.tolist(),)))

    def w_res(self):
        before = self.swarm
        o_res(self)
        if self.swarm is not before:
            stats["resamples"] += 1
            if sum(1 for p in self.swarm.particles if p is self.swarm.particles[0]) > 1:
                stats["retained_duplicated"] += 1
            if not problems:
                common(self, "resampling", self.iteration + 1)

    def w_upd(self):
        o_upd(self)
        stats["updates"] += 1
        if not problems:
            common(self, "update", self.iteration + 1)

    C.__init__, C._resample_swarm, C._update_swarm = w_init, w_res, w_upd
    exc = None
    try:
        g = SimGenerator(mode="choose", tail_seed=seed, max_draws=1000000)
        bridge.clear_caches()
        op = kernelmat.make_operation(c, g, tree_dist, data)
        out = op(start.copy())
        bad = monitors.wellformed(out, expected=set(range(n)))
        if bad:
            problems.append(({"sub": "result_ill_formed", "code": bad[0][0]}, bad[0][1]))
        fo = bridge.to_forest(out)
        if any(len(o) == 0 for o in fo.own):
            problems.append(({"sub": "result_has_empty_clone"}, models.canon_str(models.canon(fo))))
        if fo.outliers and c["outlier_prob"] <= 0:
            problems.append(({"sub": "result_has_outliers_with_modelling_off"}, models.canon_str(models.canon(fo))))
        lp = float(tree_dist.log_p_one(out))
        if not math.isfinite(lp):
            problems.append(({"sub": "result_density_not_finite"}, repr(lp)))
    except Exception as e:
        import traceback

        where = ""
        for fr in traceback.extract_tb(e.__traceback__):
            if "/phyclone/" in fr.filename:
                where = "%s:%s" % (fr.filename.split("phyclone/")[-1], fr.name)
        exc = type(e).__name__
        problems.append(({"sub": "exception", "exc": exc, "where": where, "op": c["op"]}, "%s at %s: %s" % (exc, where, str(e)[:200])))
    finally:
        C.__init__, C._resample_swarm, C._update_swarm = o_init, o_res, o_upd
    key_base = {"world": "sampled_path", "op": c["op"]}
    return {"seed": seed, "cfg": c, "problems": [(dict(key_base, **k), d) for k, d in problems[:1]], "stats": stats}
